package harness

import (
	"fmt"
	"os"
	"path/filepath"
	"strings"
	"testing"

	"github.com/openebs/jiva/replica"
	"github.com/openebs/jiva/types"
	"pgregory.net/rapid"
)

// C08Case: a generated pre-state (engine program), one operation under test
// and the selection of crash / failure points.
type C08Case struct {
	Pre     Program `json:"pre"`
	Dirty   bool    `json:"dirty"`           // pre-state captured while the replica is open
	Op      Op      `json:"op"`              // operation under test (selectors resolved against the pre-state model)
	Preload bool    `json:"preload"`         // victim opens with preload
	Punch   bool    `json:"punch,omitempty"` // victim and the reopening inspector run with space reclamation on
	Sample  []int   `json:"sample"`          // indexes (mod #calls) of the boundaries/calls to exercise; empty = all
	Then    string  `json:"then,omitempty"`  // follow-up after the operation in the failed-call runs: "" | close | touchmeta | touchclose
	All     bool    `json:"all"`
}

var c08PreCfg = GenCfg{
	MinBlocks: 4, MaxBlocks: 16, MinOps: 2, MaxOps: 22,
	W:          map[string]int{"write": 40, "snap": 22, "remove": 5, "revert": 3, "reopen": 3, "setcp": 4, "markrm": 3, "resize": 1},
	PunchStart: 0, MaxChainMin: 6, MaxChainMax: 9,
}

func genC08Op(t *rapid.T, blocks int) Op {
	k := rapid.SampledFrom([]string{"write", "write", "snap", "snap", "snapdup", "remove", "remove", "markrm", "revert", "resize", "setcp", "setrebuilding", "setclonestatus", "setrev", "close", "open"}).Draw(t, "opkind")
	switch k {
	case "write":
		return genWrite(t, blocks)
	case "snap":
		return Op{K: "snap", Name: "victim", User: rapid.Bool().Draw(t, "user")}
	case "snapdup":
		return Op{K: "snap", Name: "s0", User: rapid.Bool().Draw(t, "user")}
	case "remove":
		return Op{K: "remove", Sel: rapid.IntRange(0, 7).Draw(t, "sel")}
	case "markrm":
		return Op{K: "markrm", Sel: rapid.IntRange(0, 7).Draw(t, "sel")}
	case "revert":
		return Op{K: "revert", Sel: rapid.IntRange(0, 7).Draw(t, "sel")}
	case "resize":
		return Op{K: "resize", N: int64(blocks + rapid.IntRange(1, 16).Draw(t, "add"))}
	case "setcp":
		return Op{K: "setcp", On: rapid.Bool().Draw(t, "on")}
	case "setrebuilding":
		return Op{K: "setrebuilding", On: rapid.Bool().Draw(t, "rebuilding")}
	case "setclonestatus":
		return Op{K: "setclonestatus", Str: rapid.SampledFrom([]string{"inProgress", "completed", "error"}).Draw(t, "cs")}
	case "setrev":
		return Op{K: "setrev", N: rapid.Int64Range(1, 5000).Draw(t, "rev")}
	}
	return Op{K: k, On: rapid.Bool().Draw(t, "on")}
}

// dirState is what a replica directory shows when it is reopened.
type dirState struct {
	OpenErr error
	Chain   []string
	Size    int64
	Live    []byte
	Counter int64
	Snaps   map[string][]byte // user snapshots in the chain -> image
	SnapErr map[string]error
	MetaErr string
	Flags   string // rebuilding / clone status / checkpoint as persisted in volume.meta
}

// inspectDir reopens a (copy of a) replica directory the way a restarted
// replica does and reads everything the oracle needs.
func inspectDir(dir string, preload bool, fast bool) dirState {
	return inspectDirPunch(dir, preload, fast, false)
}

// inspectDirPunch: with punch the directory is reopened with space reclamation
// on, as a restarted replica does: the preload punches every block of a snapshot
// file that a newer file overwrites, and what is read afterwards is read after
// those punches were carried out.
func inspectDirPunch(dir string, preload bool, fast bool, punch bool) dirState {
	var st dirState
	st.Snaps = map[string][]byte{}
	st.SnapErr = map[string]error{}
	s := replica.NewServer("127.0.0.1:9502", dir, 512, "")
	s.SetPreload(preload)
	if punch {
		startHoleCreator()
		types.ShouldPunchHoles = true
		defer func() { types.ShouldPunchHoles = false }()
	}
	if err := s.Open(); err != nil {
		st.OpenErr = err
		return st
	}
	r := s.Replica()
	if fast {
		r.VerifSetHoleDrainer(replica.VerifFastHoleDrainer)
	}
	if punch {
		if err := holeBarrierAt(dir + ".barrier"); err != nil {
			s.Close()
			st.OpenErr = fmt.Errorf("harness: %v", err)
			return st
		}
	}
	defer s.Close()
	ch, err := r.Chain()
	if err != nil {
		st.OpenErr = fmt.Errorf("chain: %v", err)
		return st
	}
	st.Chain = ch
	st.Size = r.Info().Size
	st.Live = make([]byte, st.Size)
	if _, err := s.ReadAt(st.Live, 0); err != nil {
		st.OpenErr = fmt.Errorf("read: %v", err)
		return st
	}
	st.Counter = r.GetRevisionCounter()
	for d, di := range r.ListDisks() {
		if di.UserCreated && !di.Removed && d != ch[0] {
			img, err := ReadDiskImage(dir, d, st.Size)
			if err != nil {
				st.SnapErr[d] = err
			} else {
				st.Snaps[d] = img
			}
		}
	}
	// every metadata file of the chain parses
	for _, d := range ch {
		if _, err := readDiskMeta(dir, d); err != nil {
			st.MetaErr = fmt.Sprintf("%s.meta: %v", d, err)
		}
	}
	if vm, err := readVolMeta(dir); err != nil {
		st.MetaErr = "volume.meta: " + err.Error()
	} else {
		st.Flags = fmt.Sprintf("rebuilding=%v", vm.Rebuilding)
	}
	return st
}

// matches compares a reopened directory with a model state; returns "" if equal.
func (st dirState) matches(m *Model, counterLo, counterHi int64) string {
	if st.OpenErr != nil {
		return "does not reopen: " + st.OpenErr.Error()
	}
	if st.MetaErr != "" {
		return "metadata does not parse: " + st.MetaErr
	}
	if strings.Join(st.Chain, ",") != strings.Join(m.Chain, ",") {
		return fmt.Sprintf("chain %v, expected %v", st.Chain, m.Chain)
	}
	if st.Size != m.Size {
		return fmt.Sprintf("size %d, expected %d", st.Size, m.Size)
	}
	if d := m.Live.Diff(st.Live, 0); d != "" {
		return "live image: " + d
	}
	for _, sn := range m.Retained() {
		if err := st.SnapErr[sn.Disk]; err != nil {
			return fmt.Sprintf("snapshot %s unreadable: %v", sn.Disk, err)
		}
		img, ok := st.Snaps[sn.Disk]
		if !ok {
			return fmt.Sprintf("retained snapshot %s is not in the reopened chain", sn.Disk)
		}
		if d := sn.Img.Diff(img, 0); d != "" {
			return fmt.Sprintf("retained snapshot %s changed: %s", sn.Disk, d)
		}
	}
	if st.Counter < counterLo || st.Counter > counterHi {
		return fmt.Sprintf("revision counter %d outside [%d,%d]", st.Counter, counterLo, counterHi)
	}
	return ""
}

// matchesAfterRemovals: the removal of some snapshots was attempted (each may
// have happened or not): the directory reopens, the live image is the model's,
// every other retained user snapshot is there and unchanged.
func (st dirState) matchesAfterRemovals(m *Model, counterLo, counterHi int64, removed ...string) string {
	if st.OpenErr != nil {
		return "does not reopen: " + st.OpenErr.Error()
	}
	if st.MetaErr != "" {
		return "metadata does not parse: " + st.MetaErr
	}
	if st.Size != m.Size {
		return fmt.Sprintf("size %d, expected %d", st.Size, m.Size)
	}
	if d := m.Live.Diff(st.Live, 0); d != "" {
		return "live image: " + d
	}
	if len(st.Chain) == 0 || st.Chain[0] != m.Chain[0] || st.Chain[len(st.Chain)-1] != m.Chain[len(m.Chain)-1] {
		return fmt.Sprintf("chain %v, expected %v without some of %v", st.Chain, m.Chain, removed)
	}
	for _, sn := range m.Retained() {
		skip := false
		for _, r := range removed {
			skip = skip || r == sn.Disk
		}
		if skip {
			continue
		}
		if err := st.SnapErr[sn.Disk]; err != nil {
			return fmt.Sprintf("snapshot %s unreadable: %v", sn.Disk, err)
		}
		img, ok := st.Snaps[sn.Disk]
		if !ok {
			return fmt.Sprintf("retained snapshot %s is not in the reopened chain", sn.Disk)
		}
		if d := sn.Img.Diff(img, 0); d != "" {
			return fmt.Sprintf("retained snapshot %s changed: %s", sn.Disk, d)
		}
	}
	if st.Counter < counterLo || st.Counter > counterHi {
		return fmt.Sprintf("revision counter %d outside [%d,%d]", st.Counter, counterLo, counterHi)
	}
	return ""
}

// matchesWrite: state after an interrupted write: everything outside the
// in-flight range as before, inside it old or new per sector.
func (st dirState) matchesWrite(pre, post *Model, off, length int64) string {
	if st.OpenErr != nil {
		return "does not reopen: " + st.OpenErr.Error()
	}
	if strings.Join(st.Chain, ",") != strings.Join(pre.Chain, ",") {
		return fmt.Sprintf("chain %v, expected %v", st.Chain, pre.Chain)
	}
	if st.Size != pre.Size {
		return fmt.Sprintf("size %d, expected %d", st.Size, pre.Size)
	}
	for s := int64(0); s < pre.Size/Sec; s++ {
		if pre.Live.Indet[s] && post.Live.Indet[s] {
			continue
		}
		got := st.Live[s*Sec : (s+1)*Sec]
		oldOK := pre.Live.Indet[s] || string(got) == string(pre.Live.B[s*Sec:(s+1)*Sec])
		newOK := post.Live.Indet[s] || string(got) == string(post.Live.B[s*Sec:(s+1)*Sec])
		inRange := s*Sec >= off && s*Sec < off+length
		if inRange && (oldOK || newOK) {
			continue
		}
		if !inRange && oldOK {
			continue
		}
		return fmt.Sprintf("sector %d (block %d, in-flight range=%v) is neither the old nor the new content", s, s*Sec/Blk, inRange)
	}
	for _, sn := range pre.Retained() {
		img, ok := st.Snaps[sn.Disk]
		if !ok {
			return fmt.Sprintf("retained snapshot %s missing", sn.Disk)
		}
		if d := sn.Img.Diff(img, 0); d != "" {
			return fmt.Sprintf("retained snapshot %s changed: %s", sn.Disk, d)
		}
	}
	if st.Counter < pre.Counter || st.Counter > pre.Counter+1 {
		return fmt.Sprintf("revision counter %d outside [%d,%d]", st.Counter, pre.Counter, pre.Counter+1)
	}
	return ""
}

type c08Stats struct {
	victimRuns, crashPoints, faultPoints, calls, removeNext int
	exhaustive                                              bool
	opKind                                                  string
	skipped                                                 string
}

// dirMarker: opens of files inside the replica directory (not /proc, /sys, the binary ...).
func dirMarker(dir string) string { return "\"" + dir + "/" }

func errnosFor(c SysCall) []string {
	if c.Role == "open-existing" {
		return []string{"EIO"}
	}
	if c.Name == "mkdir" || c.Name == "mkdirat" {
		return nil // mkdir of the existing replica directory can only answer EEXIST
	}
	switch c.Name {
	case "openat", "write", "pwrite64", "fallocate", "ftruncate", "truncate", "link", "linkat", "rename", "renameat", "renameat2", "mkdir", "mkdirat":
		return []string{"ENOSPC", "EIO"}
	}
	return []string{"EIO"}
}

// runC08Case executes one case; returns the first violation.
func runC08Case(cc C08Case) (*Fail, c08Stats, error) {
	var stt c08Stats
	stt.opKind = cc.Op.K
	pre := cc.Pre
	e, err := NewEngine(pre)
	if err != nil {
		return nil, stt, err
	}
	defer e.Destroy()
	for i, op := range pre.Ops {
		if f := e.Step(i, op); f != nil {
			stt.skipped = "pre-state program hit another oracle: " + f.Sig
			return nil, stt, nil
		}
	}
	base := e.BaseDir()
	preDir := filepath.Join(base, "pre")
	// capture the pre-state
	if err := e.HoleBarrier(); err != nil {
		return nil, stt, err
	}
	if cc.Dirty && cc.Op.K != "open" {
		if err := CopyDirExact(e.Dir, preDir); err != nil {
			return nil, stt, err
		}
	} else {
		e.fixDrainer()
		if err := e.S.Close(); err != nil {
			return nil, stt, err
		}
		if err := CopyDirExact(e.Dir, preDir); err != nil {
			return nil, stt, err
		}
		if err := e.S.Open(); err != nil {
			// the pre-state was built by accepted operations and closed cleanly: it reopens
			return fail("C08|prestate|clean-close-then-open-fails", fmt.Sprintf("a directory built by %d accepted operations and closed normally does not open again: %v", len(pre.Ops), err), "C08", "C12"), stt, nil
		}
		e.fixDrainer()
		e.S.SetReplicaMode(e.M.Mode)
	}
	preM := e.M.Clone()
	opIdx := len(pre.Ops)
	// resolve the operation to a concrete victim op and run it in-process to obtain the post-state model
	vop := VictimOp{K: cc.Op.K, Preload: cc.Preload, Mode: "RW", Punch: cc.Punch}
	expectRefused := false
	switch cc.Op.K {
	case "write":
		vop.Off, vop.Len, vop.Seed, vop.Idx = cc.Op.Off*Sec, cc.Op.Len*Sec, cc.Op.Seed, opIdx
		if vop.Off+vop.Len > preM.Size {
			stt.skipped = "write outside the volume"
			return nil, stt, nil
		}
	case "snap":
		vop.Name, vop.User = cc.Op.Name, cc.Op.User
		expectRefused = e.nameTaken(cc.Op.Name) || (preM.MaxChain > 0 && len(preM.Chain)+2 > preM.MaxChain)
		if !expectRefused && preM.MaxChain > 0 && len(preM.Chain)+2 >= preM.MaxChain {
			stt.skipped = "chain length at the refusal boundary"
			return nil, stt, nil
		}
	case "markrm":
		sn := e.chainSnap(cc.Op.Sel)
		if sn == nil {
			stt.skipped = "no snapshot"
			return nil, stt, nil
		}
		idx := preM.InChain(sn.Disk)
		if idx == 1 || idx == len(preM.Chain)-1 {
			expectRefused = true
		}
		vop.Name = sn.Name
	case "revert":
		sn := e.chainSnap(cc.Op.Sel)
		if sn == nil || sn.Removed {
			stt.skipped = "no snapshot"
			return nil, stt, nil
		}
		if cc.Punch && !sn.User {
			// nothing is promised about reverting to an automatic snapshot once space
			// reclamation has thinned it (the preload of the victim's open does): this
			// case runs without reclamation
			cc.Punch, vop.Punch = false, false
		}
		vop.Name = sn.Disk
	case "resize":
		vop.N = cc.Op.N * Blk
		if vop.N <= preM.Size {
			stt.skipped = "not a grow"
			return nil, stt, nil
		}
	case "setcp":
		if cc.Op.On {
			vop.Name = preM.Latest()
		}
	case "setrebuilding":
		vop.On = cc.Op.On
		vop.PreRebuilding = !cc.Op.On // ending a rebuild: the flag is set first
	case "setclonestatus":
		vop.Name = cc.Op.Str
	case "setrev":
		vop.N = cc.Op.N
	case "remove":
		if preM.Checkpoint == "" {
			stt.skipped = "no checkpoint"
			return nil, stt, nil
		}
	}
	var postM *Model
	switch cc.Op.K {
	case "setrebuilding", "setclonestatus", "close", "open":
		postM = preM.Clone() // nothing the model tracks changes (the flags are checked separately)
	default:
		eop := cc.Op
		if f := e.Step(opIdx, eop); f != nil {
			stt.skipped = "reference execution hit an oracle: " + f.Sig
			return nil, stt, nil
		}
		postM = e.M.Clone()
		if cc.Op.K == "remove" {
			if e.Labels["remove:ok"] == 0 || e.LastRemoved == "" {
				stt.skipped = "no deletion candidate"
				return nil, stt, nil
			}
			vop.Name = e.LastRemoved
		}
	}
	sig0 := "C08|" + cc.Op.K
	// the flags volume.meta persists (they gate the replica's REST actions after a restart)
	preFlags, postFlags := "", ""
	if vm, err := readVolMeta(preDir); err == nil {
		// Only the rebuilding flag is compared: it decides the replica's state after a
		// restart and whether a half-built copy may serve (C07, C17), and SetRebuilding
		// changes it in memory only after the write succeeded. SetCloneStatus and
		// SetCheckpoint update their in-memory value first; when their write fails the
		// directory is intact at that moment, but a later close persists the value of
		// the request that reported failure (DESIGN 7.3) - no listed statement forbids that.
		fl := func(rb bool, cs, cp string) string {
			return fmt.Sprintf("rebuilding=%v", rb)
		}
		rb := vm.Rebuilding || vop.PreRebuilding
		preFlags = fl(rb, vm.CloneStatus, vm.Checkpoint)
		postFlags = preFlags
		switch cc.Op.K {
		case "setrebuilding":
			postFlags = fl(vop.On, vm.CloneStatus, vm.Checkpoint)
		case "setclonestatus":
			postFlags = fl(rb, vop.Name, vm.Checkpoint)
		case "setcp":
			postFlags = fl(rb, vm.CloneStatus, postM.Checkpoint)
		case "remove", "markrm", "revert", "snap":
			postFlags = fl(rb, vm.CloneStatus, postM.Checkpoint)
		}
	}
	cmpState := func(ds dirState, m *Model, lo, hi int64, flags string) string {
		d := ds.matches(m, lo, hi)
		if d == "" && flags != "" && ds.Flags != "" && ds.Flags != flags {
			d = fmt.Sprintf("volume.meta persists %s, expected %s", ds.Flags, flags)
		}
		return d
	}
	cLo, cHi := preM.Counter, postM.Counter
	if cLo > cHi {
		cLo, cHi = cHi, cLo // an explicit SetRevisionCounter may lower the counter
	}
	work := filepath.Join(base, "work")
	fresh := func() error {
		os.RemoveAll(work)
		return CopyDirExact(preDir, work)
	}
	// ---- run 1: record
	if err := fresh(); err != nil {
		return nil, stt, err
	}
	rec, err := runVictim(work, vop, pre.MaxChain, "")
	if err != nil {
		return nil, stt, err
	}
	stt.victimRuns++
	if rec.Died {
		return fail(sig0+"|no-fault|victim-died", "the operation killed the process without any injected fault\n"+tailStr(rec.Raw, 1500), "C08", "C14"), stt, nil
	}
	okRes := rec.Result == "ok"
	if expectRefused == okRes {
		return fail(sig0+"|no-fault|unexpected-result", fmt.Sprintf("operation %+v returned %q, expected refusal=%v", vop, rec.Result, expectRefused), "C12"), stt, nil
	}
	want := postM
	if expectRefused {
		want = preM
	}
	if d := inspectDirPunch(work, true, true, cc.Punch).matches(want, want.Counter, want.Counter); d != "" {
		return fail(sig0+"|no-fault|state-after-normal-exit", fmt.Sprintf("after %+v (%s) the directory: %s", vop, rec.Result, d), "C08", "C12"), stt, nil
	}
	var calls []SysCall
	for _, c := range rec.Calls {
		// plain opens of existing files change nothing (no crash point of their own),
		// but they are file-system calls that can fail: fault points
		if c.isMutating() || (c.Role == "open-existing" && strings.Contains(c.Args, dirMarker(work))) {
			calls = append(calls, c)
		}
	}
	stt.calls = len(calls)
	if d := os.Getenv("VERIF_DUMP_DIR"); d != "" {
		os.MkdirAll(d, 0700)
		var sb strings.Builder
		for i, c := range rec.Calls {
			fmt.Fprintf(&sb, "%d %s(%s) = %s [%s]\n", i+1, c.Name, tailStr(c.Args, 110), c.Ret, c.Role)
		}
		os.WriteFile(filepath.Join(d, "calls.txt"), []byte(sb.String()), 0600)
	}
	// ---- durability lint on the recorded trace
	if okRes {
		if f := durabilityLint(rec, work, sig0); f != nil {
			return f, stt, nil
		}
	}
	if len(calls) == 0 {
		return nil, stt, nil
	}
	// which points
	pick := map[int]bool{}
	if cc.All || len(cc.Sample) == 0 {
		for i := range calls {
			pick[i] = true
		}
		stt.exhaustive = true
	} else {
		// the data calls of a write or a fold (one pwrite64 per block) would crowd
		// out the few metadata calls that decide the chain: two of three sampled
		// points are metadata calls
		var metaIdx, dataIdx []int
		for ci, c := range calls {
			if c.Name == "pwrite64" || c.Name == "fallocate" || c.Role == "write(head.img)" || c.Role == "write(snap.img)" {
				dataIdx = append(dataIdx, ci)
			} else {
				metaIdx = append(metaIdx, ci)
			}
		}
		for k, sidx := range cc.Sample {
			switch {
			case len(metaIdx) > 0 && (k%3 != 2 || len(dataIdx) == 0):
				pick[metaIdx[sidx%len(metaIdx)]] = true
			case len(dataIdx) > 0:
				pick[dataIdx[sidx%len(dataIdx)]] = true
			}
		}
		stt.exhaustive = len(pick) == len(calls)
	}
	for i, c := range calls {
		if !pick[i] {
			continue
		}
		// ---- process death on entry to call i (the state before a read-only open is the state after the previous call: no crash point)
		if c.isMutating() {
			if err := fresh(); err != nil {
				return nil, stt, err
			}
			inj := fmt.Sprintf("%s:signal=SIGKILL:when=%d", c.Name, c.Ordinal)
			vr, err := runVictim(work, vop, pre.MaxChain, inj)
			if err != nil {
				return nil, stt, err
			}
			stt.victimRuns++
			stt.crashPoints++
			if !vr.Died {
				return nil, stt, fmt.Errorf("SIGKILL injection %s did not kill the victim (result %q); recorded %d calls", inj, vr.Result, len(calls))
			}
			for _, preload := range []bool{true, false} {
				if err := checkCrashState(work, base, preload, cc.Op.K, vop, preM, postM, expectRefused, cLo, cHi); err != "" {
					return fail(sig0+"|crash-before:"+c.Role+"|state-damaged", fmt.Sprintf("process death on entry to call %d/%d %s(%s) of %+v; reopening (preload=%v): %s", i+1, len(calls), c.Name, tailStr(c.Args, 120), vop, preload, err), "C08"), stt, nil
				}
			}
		}
		// ---- that call fails
		for _, en := range errnosFor(c) {
			if err := fresh(); err != nil {
				return nil, stt, err
			}
			inj := fmt.Sprintf("%s:error=%s:when=%d", c.Name, en, c.Ordinal)
			fvop := vop
			if cc.Op.K != "close" && cc.Op.K != "open" {
				fvop.Then = cc.Then
				if cc.Op.K == "setrebuilding" && fvop.Then != "" {
					fvop.Then = "close" // the other follow-ups set the flag themselves
				}
			}
			if fvop.Then == "removenext" {
				fvop.Next = ""
				if idx := preM.InChain(vop.Name); cc.Op.K == "remove" && idx >= 2 {
					fvop.Next = preM.Chain[idx-1]
				} else {
					fvop.Then = "close"
				}
			}
			vr, err := runVictim(work, fvop, pre.MaxChain, inj)
			if err != nil {
				return nil, stt, err
			}
			stt.victimRuns++
			stt.faultPoints++
			if !vr.Died && fvop.Then == "removenext" {
				// whatever became of the two removals (done, refused, failed): deleting
				// snapshots never changes the live data nor another retained snapshot
				stt.removeNext++
				if strings.Contains(vr.Raw, "THEN read error") {
					return fail(sig0+"|"+c.Role+"|"+en+"|failed-removal-then-next-removal|read-fails",
						fmt.Sprintf("%s on call %d/%d %s(%s) of the removal of %s (reported %q), then the removal of its child %s: the running replica no longer serves reads\n%s",
							en, i+1, len(calls), c.Name, tailStr(c.Args, 120), vop.Name, vr.Result, fvop.Next, tailStr(vr.Raw, 600)), "C08", "C11"), stt, nil
				}
				if live, rerr := os.ReadFile(work + ".thenlive"); rerr == nil {
					os.Remove(work + ".thenlive")
					if d := preM.Live.Diff(live, 0); d != "" || int64(len(live)) != preM.Size {
						return fail(sig0+"|"+c.Role+"|"+en+"|failed-removal-then-next-removal|live-data-changed",
							fmt.Sprintf("%s on call %d/%d %s(%s) of the removal of %s (reported %q), then the removal of its child %s on the same replica (%s): the running replica serves (%d bytes): %s",
								en, i+1, len(calls), c.Name, tailStr(c.Args, 120), vop.Name, vr.Result, fvop.Next, vr.Then, len(live), d), "C08", "C11"), stt, nil
					}
				}
				ds := inspectDirPunch(work, true, true, cc.Punch)
				if d := ds.matchesAfterRemovals(preM, cLo, cHi, vop.Name, fvop.Next); d != "" {
					return fail(sig0+"|"+c.Role+"|"+en+"|failed-removal-then-next-removal|state-damaged",
						fmt.Sprintf("%s on call %d/%d %s(%s) of the removal of %s (reported %q), then the removal of its child %s on the same replica (%s), then close; the directory: %s",
							en, i+1, len(calls), c.Name, tailStr(c.Args, 120), vop.Name, vr.Result, fvop.Next, vr.Then, d), "C08", "C11"), stt, nil
				}
				continue
			}
			if vr.Died {
				// the failure made the process exit (logrus.Fatal): a process death at that point
				if err := checkCrashState(work, base, true, cc.Op.K, vop, preM, postM, expectRefused, cLo, cHi); err != "" {
					return fail(sig0+"|"+c.Role+"|"+en+"|exit-with-damaged-state", fmt.Sprintf("%s on call %d/%d %s(%s) of %+v ended the process and the directory: %s", en, i+1, len(calls), c.Name, tailStr(c.Args, 120), vop, err), "C08"), stt, nil
				}
				continue
			}
			ds := inspectDirPunch(work, true, true, cc.Punch)
			if vr.Result == "ok" {
				w := postM
				if expectRefused {
					w = preM
				}
				wf := postFlags
				if expectRefused {
					wf = preFlags
				}
				if d := cmpState(ds, w, w.Counter, w.Counter, wf); d != "" {
					return fail(sig0+"|"+c.Role+"|"+en+"|success-over-damaged-state", fmt.Sprintf("%s on call %d/%d %s(%s) of %+v: the operation reported success but the directory: %s", en, i+1, len(calls), c.Name, tailStr(c.Args, 120), fvop, d), "C08"), stt, nil
				}
			} else {
				var d string
				if cc.Op.K == "write" {
					d = ds.matchesWrite(preM, postM, vop.Off, vop.Len)
				} else {
					d = cmpState(ds, preM, preM.Counter, preM.Counter, preFlags)
				}
				if d != "" {
					kind := "reports-failure-state-damaged"
					if cc.Op.K != "write" && cmpState(ds, postM, cLo, cHi, postFlags) == "" {
						kind = "reports-failure-new-state-in-place"
					}
					sg := sig0 + "|" + c.Role + "|" + en + "|" + kind
					if fvop.Then != "" {
						// distinguish what the follow-up persisted from what the failed operation itself did:
						// when the operation alone leaves the old state intact, the new state reached the
						// disk through what it left in memory
						if err := fresh(); err != nil {
							return nil, stt, err
						}
						if vr2, err := runVictim(work, vop, pre.MaxChain, inj); err == nil && !vr2.Died && vr2.Result != "ok" &&
							cmpState(inspectDirPunch(work, true, true, cc.Punch), preM, preM.Counter, preM.Counter, preFlags) == "" {
							kind = "failed-operation-then-" + fvop.Then + "|state-damaged"
							sg = sig0 + "|" + c.Role + "|" + en + "|" + kind
							d = fmt.Sprintf("the failed operation alone leaves the old state intact, but after the follow-up %q (result %q) on the same replica: %s", fvop.Then, vr.Then, d)
						}
					}
					if kind == "reports-failure-new-state-in-place" {
						// one root cause whatever the operation, call and errno: nothing is rolled
						// back once the commit point (the rename of the metadata file) has passed
						sg = "C08|failure-after-commit-point|" + kind
					}
					return fail(sg, fmt.Sprintf("%s on call %d/%d %s(%s) of %+v: the operation reported %q but the old state is not intact: %s", en, i+1, len(calls), c.Name, tailStr(c.Args, 120), fvop, vr.Result, d), "C08"), stt, nil
				}
			}
		}
	}
	return nil, stt, nil
}

// checkCrashState: after a process death the directory reopens and shows the
// state before or after the interrupted operation.
func checkCrashState(work, base string, preload bool, kind string, vop VictimOp, preM, postM *Model, refused bool, cLo, cHi int64) string {
	punch := vop.Punch
	probe := filepath.Join(base, "probe")
	os.RemoveAll(probe)
	if err := CopyDirExact(work, probe); err != nil {
		return "harness: " + err.Error()
	}
	defer os.RemoveAll(probe)
	ds := inspectDirPunch(probe, preload, true, punch)
	if kind == "write" {
		return ds.matchesWrite(preM, postM, vop.Off, vop.Len)
	}
	dPre := ds.matches(preM, cLo, cHi)
	if dPre == "" || refused {
		return dPre
	}
	dPost := ds.matches(postM, cLo, cHi)
	if dPost == "" {
		return ""
	}
	return fmt.Sprintf("neither the state before (%s) nor the state after (%s)", dPre, dPost)
}

// durabilityLint: for an operation that returned success every directory
// update (create, rename, link, unlink) is followed by an fsync of the
// directory before the operation returns; metadata temp files are O_SYNC.
func durabilityLint(rec *VictimRun, dir, sig0 string) *Fail {
	lastDirChange := -1
	lastDirChangeRole := ""
	lastDirSync := -1
	dirFds := map[string]bool{}
	for i, c := range rec.Calls {
		switch c.Name {
		case "openat":
			if strings.Contains(c.Args, "\""+dir+"\"") || strings.Contains(c.Args, "O_DIRECTORY") {
				fd := strings.Fields(c.Ret)
				if len(fd) > 0 {
					dirFds[fd[0]] = true
				}
			}
			if strings.Contains(c.Args, "O_CREAT") {
				lastDirChange, lastDirChangeRole = i, c.Role
				if strings.Contains(c.Args, ".meta.tmp") && !strings.Contains(c.Args, "O_SYNC") && !strings.Contains(c.Args, "O_DSYNC") {
					return fail(sig0+"|lint|"+c.Role+"|metadata-temp-not-O_SYNC", "metadata temp file opened without O_SYNC: "+c.Args, "C08")
				}
			}
		case "rename", "renameat", "renameat2", "link", "linkat", "unlink", "unlinkat", "mkdir", "mkdirat":
			if !strings.HasPrefix(c.Ret, "-1") {
				lastDirChange, lastDirChangeRole = i, c.Role
			}
		case "fsync", "fdatasync":
			fd := strings.TrimSpace(strings.Split(c.Args, ",")[0])
			if dirFds[fd] && !strings.HasPrefix(c.Ret, "-1") {
				lastDirSync = i
			}
		}
	}
	if lastDirChange >= 0 && lastDirSync < lastDirChange {
		return fail(sig0+"|lint|"+lastDirChangeRole+"|directory-update-not-flushed", fmt.Sprintf("the operation returned success but its directory update %s (call %d) is not followed by an fsync of the directory", lastDirChangeRole, lastDirChange+1), "C08")
	}
	return nil
}

func c08Run(t *testing.T, prop, test string, all bool, gen func(*rapid.T) C08Case) {
	rec := NewRecorder(prop, test)
	defer rec.Flush(t)
	startHoleCreator()
	run := func(cc C08Case, fatalf func(string, ...interface{})) {
		types.ShouldPunchHoles = false
		f, stt, err := runC08Case(cc)
		if err != nil {
			fatalf("HARNESS ERROR: %v", err)
			return
		}
		labels := []string{"op:" + stt.opKind}
		if stt.skipped != "" {
			labels = append(labels, "skipped")
		}
		if stt.exhaustive && stt.calls > 0 {
			labels = append(labels, "exhaustive-pair")
		}
		if cc.Dirty {
			labels = append(labels, "dirty-pre-state")
		}
		if cc.Then != "" && stt.faultPoints > 0 {
			labels = append(labels, "failed-call-then-"+cc.Then)
		}
		if cc.Punch && stt.victimRuns > 1 {
			labels = append(labels, "reclamation-on")
		}
		if stt.removeNext > 0 {
			labels = append(labels, "failed-removal-then-removal-of-the-child")
		}
		rec.Case(cc, stt.victimRuns > 1, labels...)
		rec.AddExtra("victim_runs", stt.victimRuns)
		rec.AddExtra("crash_points", stt.crashPoints)
		rec.AddExtra("failed_call_points", stt.faultPoints)
		if stt.exhaustive && stt.calls > 0 {
			rec.AddExtra("exhaustive_pairs", 1)
		}
		if f != nil {
			// a reopened directory whose revision counter is out of range is C10's clause too
			if strings.Contains(f.Detail, "revision counter") && !f.Has("C10") {
				f.Props = append(f.Props, "C10")
			}
			// the persisted flags decide which actions the replica accepts after a restart
			if strings.Contains(f.Detail, "volume.meta persists") && !f.Has("C17") {
				f.Props = append(f.Props, "C17")
			}
			if !f.Has(prop) {
				rec.Cross(f.String(), cc)
				return
			}
			sig := f.Sig
			if prop != "C08" {
				sig = prop + strings.TrimPrefix(sig, "C08")
			}
			if rec.Fail(prop, sig, f.Detail, cc) {
				return
			}
			fatalf("VIOLATION %s %s: %s", prop, sig, f.Detail)
		}
	}
	var rp C08Case
	if isReplay, err := LoadReplay(&rp); isReplay {
		if err != nil {
			t.Fatalf("HARNESS ERROR: %v", err)
		}
		run(rp, t.Fatalf)
		return
	}
	if firstShard() {
		for _, rf := range regressFiles(test) {
			var c C08Case
			if err := loadCaseFile(rf, &c); err != nil {
				t.Fatalf("HARNESS ERROR: bad regression file %s: %v", rf, err)
			}
			rec.Label("regress-replayed", 1)
			run(c, t.Fatalf)
		}
	}
	checkBudget(t, func(rt *rapid.T) { run(gen(rt), rt.Fatalf) })
}

// ensureDeletable: a deletion needs a chain with snapshots below a checkpoint:
// make sure the pre-state has them (automatic snapshots with data of their own).
func ensureDeletable(t *rapid.T, cc C08Case) C08Case {
	n := len(cc.Pre.Ops)
	for k := 0; k < 3; k++ {
		off := rapid.Int64Range(0, int64(cc.Pre.Blocks)*8-8).Draw(t, "deloff")
		cc.Pre.Ops = append(cc.Pre.Ops,
			Op{K: "write", Off: off, Len: rapid.Int64Range(1, 8).Draw(t, "dellen"), Seed: rapid.IntRange(1, 250).Draw(t, "delseed")},
			Op{K: "snap", Name: fmt.Sprintf("d%d", n+k), User: rapid.IntRange(0, 3).Draw(t, "deluser") == 0})
	}
	cc.Pre.Ops = append(cc.Pre.Ops, Op{K: "setcp", On: true})
	if cc.Pre.MaxChain > 0 && cc.Pre.MaxChain < 12 {
		cc.Pre.MaxChain = 12
	}
	return cc
}

func genC08Case(t *rapid.T, all bool) C08Case {
	pre := GenProgram(t, c08PreCfg)
	// make sure a snapshot named s0 and a checkpoint exist in most pre-states
	cc := C08Case{Pre: pre, Dirty: rapid.Bool().Draw(t, "dirty"), Preload: rapid.Bool().Draw(t, "preload"), All: all}
	blocks := pre.Blocks
	for _, o := range pre.Ops {
		if o.K == "resize" && int(o.N) > blocks {
			blocks = int(o.N)
		}
	}
	cc.Op = genC08Op(t, pre.Blocks)
	if cc.Op.K == "remove" || cc.Op.K == "markrm" {
		cc = ensureDeletable(t, cc)
	}
	if !all {
		cc.Sample = rapid.SliceOfN(rapid.IntRange(0, 200), 2, 4).Draw(t, "sample")
	}
	cc.Then = rapid.SampledFrom([]string{"", "", "close", "close", "touchmeta", "touchclose"}).Draw(t, "then")
	switch cc.Op.K {
	case "write", "snap", "revert", "open", "close", "remove":
		// a third of these cases run with space reclamation on in the victim and in the
		// reopening inspector (the pre-state was built with it off, so blocks that were
		// overwritten are still held twice and the preload of each open punches them)
		cc.Punch = rapid.IntRange(0, 2).Draw(t, "punch") == 0
	}
	if cc.Op.K == "remove" && rapid.Bool().Draw(t, "removenext") {
		cc.Then = "removenext"
	}
	return cc
}

// TestC11Faults — a snapshot removal during which one file-system call fails,
// followed (when the replica is still running) by the removal of the child of
// that snapshot on the same replica and a normal close: the live data and the
// other retained snapshots are what they were.
func TestC11Faults(t *testing.T) {
	c08Run(t, "C11", "TestC11Faults", false, func(rt *rapid.T) C08Case {
		cc := genC08Case(rt, false)
		if cc.Op.K != "remove" {
			// (the pre-state is prepared for deletions only when the drawn op is one)
			cc.Op = Op{K: "markrm"}
			cc = ensureDeletable(rt, cc)
			cc.Op = Op{K: "remove", Sel: rapid.IntRange(0, 7).Draw(rt, "c11sel")}
		}
		cc.Then = "removenext"
		cc.Sample = rapid.SliceOfN(rapid.IntRange(0, 200), 5, 8).Draw(rt, "c11sample")
		return cc
	})
}

// TestC08 — the replica directory is crash-consistent at every instant.
func TestC08(t *testing.T) {
	c08Run(t, "C08", "TestC08", tier() == "thorough", func(rt *rapid.T) C08Case { return genC08Case(rt, tier() == "thorough") })
}

// TestC17Faults — a state-changing request that fails (one file-system call of
// it fails) leaves the replica's persisted state flags as they were, also after
// the replica is closed normally afterwards.
func TestC17Faults(t *testing.T) {
	c08Run(t, "C17", "TestC17Faults", false, func(rt *rapid.T) C08Case {
		cc := genC08Case(rt, false)
		cc.Op = Op{K: "setrebuilding", On: rapid.Bool().Draw(rt, "c17on")}
		cc.Then = "close"
		cc.Sample = rapid.SliceOfN(rapid.IntRange(0, 200), 5, 8).Draw(rt, "c17sample")
		return cc
	})
}

// TestC10Crash — the revision counter never goes back across a process death or
// a failed file-system call: the crash / failed-call enumeration of C08 over the
// operations that read or write the counter, reporting the counter clause.
func TestC10Crash(t *testing.T) {
	c08Run(t, "C10", "TestC10Crash", false, func(rt *rapid.T) C08Case {
		cc := genC08Case(rt, false)
		switch rapid.IntRange(0, 5).Draw(rt, "c10op") {
		case 0, 1:
			cc.Op = Op{K: "open", On: rapid.Bool().Draw(rt, "c10preload")}
		case 2:
			cc.Op = genWrite(rt, cc.Pre.Blocks)
		case 3:
			cc.Op = Op{K: "setrev", N: rapid.Int64Range(1, 5000).Draw(rt, "c10rev")}
		case 4:
			cc.Op = Op{K: "revert", Sel: rapid.IntRange(0, 7).Draw(rt, "c10sel")}
		default:
			cc.Op = Op{K: "close"}
		}
		cc.Sample = rapid.SliceOfN(rapid.IntRange(0, 200), 4, 6).Draw(rt, "c10sample")
		return cc
	})
}

// TestC08Extents — the crash / failed-call enumeration over pre-states whose head
// (and one snapshot) consist of well over a thousand separate extents, with space
// reclamation on: every reopen rebuilds the block map from several FIEMAP batches
// and punches what it takes for duplicates.
func TestC08Extents(t *testing.T) {
	c08Run(t, "C08", "TestC08Extents", false, func(rt *rapid.T) C08Case {
		blocks := rapid.IntRange(2300, 3000).Draw(rt, "blocks")
		n := int64(rapid.IntRange(1030, 1140).Draw(rt, "extents"))
		pre := Program{Blocks: blocks, MaxChain: 0}
		pre.Ops = append(pre.Ops,
			Op{K: "comb", Off: int64(rapid.IntRange(0, 3).Draw(rt, "o1")), N: n, Len: 2, Seed: rapid.IntRange(1, 250).Draw(rt, "s1")},
			Op{K: "snap", Name: "u0", User: rapid.Bool().Draw(rt, "user")},
			// the head overwrites every other block of the comb (and, shifted, some new ones)
			Op{K: "comb", Off: int64(rapid.IntRange(0, 5).Draw(rt, "o2")), N: n, Len: int64(rapid.SampledFrom([]int{2, 4}).Draw(rt, "stride2")), Seed: rapid.IntRange(1, 250).Draw(rt, "s2")})
		if rapid.Bool().Draw(rt, "second") {
			pre.Ops = append(pre.Ops, Op{K: "snap", Name: "a1"}, genWrite(rt, blocks))
		}
		cc := C08Case{Pre: pre, Dirty: rapid.Bool().Draw(rt, "dirty"), Preload: true, Punch: true}
		switch rapid.IntRange(0, 3).Draw(rt, "op") {
		case 0:
			cc.Op = Op{K: "open", On: true}
		case 1:
			cc.Op = Op{K: "close"}
		case 2:
			cc.Op = Op{K: "snap", Name: "z9", User: rapid.Bool().Draw(rt, "zuser")}
		default:
			cc.Op = genWrite(rt, blocks)
		}
		cc.Sample = rapid.SliceOfN(rapid.IntRange(0, 200), 2, 3).Draw(rt, "sample")
		cc.Then = rapid.SampledFrom([]string{"", "close"}).Draw(rt, "then")
		return cc
	})
}
