package harness

import (
	"bytes"
	"fmt"
	"strings"
	"testing"
	"time"

	replicaClient "github.com/openebs/jiva/replica/client"
	jsync "github.com/openebs/jiva/sync"
	"github.com/openebs/jiva/types"
	"pgregory.net/rapid"
)

// The product's own deletion path. A user's delete request only marks the
// snapshot (Controller.DeleteSnapshot -> prepareremovedisk on every replica);
// the merge and the unlink are done later by sync.Task.InternalSnapshotCleaner,
// a loop in every replica process that wakes up every 60 s (a constant), asks
// the controller for the checkpoint, takes the first candidate, has the sync
// agent fold it into its parent (an sfold child process) and removes it. Here
// that loop itself runs against in-process replicas of a real controller.

// doCtlDeleteSnapshot: the user's delete request for the op.N-th volume snapshot.
func (x *SExec) doCtlDeleteSnapshot(i int, op SOp) *Fail {
	if len(x.snaps) == 0 {
		return nil
	}
	name := x.snaps[int(op.N)%len(x.snaps)]
	if x.snapImg[name] == nil {
		return nil
	}
	err := x.St.C.DeleteSnapshot(name, x.St.C.ListReplicas())
	x.tracef("delete snapshot %s -> %v", name, err)
	if x.snapMarked == nil {
		x.snapMarked = map[string]string{}
	}
	if err == nil {
		x.snapMarked[name] = "removed"
		x.Labels["ctldelsnap:accepted"]++
	} else {
		// refused by some replica (latest, base, ...): it may be marked on the ones asked before
		if x.snapMarked[name] == "" {
			x.snapMarked[name] = "maybe"
		}
		x.Labels["ctldelsnap:refused"]++
	}
	return nil
}

type nodeChainView struct {
	chain []string
	disks map[string]types.DiskInfo
	cp    string
}

// doCleaner runs the product's cleaner loop on every RW replica for op.N ticks
// (60 s each) with foreground I/O going on. op.Str: "" | agentdown (the sync
// agents are stopped first: every fold fails).
func (x *SExec) doCleaner(i int, op SOp) *Fail {
	st := x.St
	if err := st.EnableSystem(); err != nil {
		panic(err)
	}
	var nodes []int
	for j, m := range x.Mode {
		if m == types.RW && st.Nodes[j].S.Replica() != nil {
			nodes = append(nodes, j)
		}
	}
	if len(nodes) == 0 {
		return nil
	}
	ctlCP := st.C.VerifState().Checkpoint
	before := map[int]nodeChainView{}
	for _, j := range nodes {
		r := st.Nodes[j].S.Replica()
		ch, err := r.Chain()
		if err != nil {
			return sfail("cleaner|chain-unreadable", err.Error(), "C12")
		}
		before[j] = nodeChainView{chain: ch, disks: r.ListDisks(), cp: r.Info().Checkpoint}
	}
	if op.Str == "agentdown" {
		for _, j := range nodes {
			st.Nodes[j].StopAgent()
		}
		x.Labels["cleaner:agents-down"]++
	}
	// a removal holds the replica's lock while the punch queue drains (product: up
	// to a second; its data-path deadlines are 30 s): the harness's 300 ms deadlines
	// would turn that pause into a detached replica
	SetStackTimeouts(6*time.Second, 8*time.Second, time.Hour)
	defer SetStackTimeouts(sRW, sPing, time.Hour)
	for _, j := range nodes {
		st.Nodes[j].fixDrainer()
	}
	oldRet := jsync.SnapshotRetentionCount
	jsync.SnapshotRetentionCount = 1
	defer func() { jsync.SnapshotRetentionCount = oldRet }()
	for _, j := range nodes {
		rc, err := replicaClient.NewReplicaClient(st.Nodes[j].Addr)
		if err != nil {
			return nil
		}
		task := jsync.NewTask(st.CtrlURL())
		// the loop ends by itself once the replica is closed (case end)
		go task.InternalSnapshotCleaner(st.Nodes[j].S, rc)
	}
	ticks := int(op.N)
	if ticks < 1 {
		ticks = 1
	}
	end := time.Now().Add(time.Duration(ticks)*jsync.SnapshotDeletionInterval + 3*time.Second)
	q := 0
	for time.Now().Before(end) {
		q++
		if !x.readOnly() {
			if f := x.fgWrite(i, op.Seed, q, q%2 == 0); f != nil {
				return f
			}
		}
		if f := x.doRead(i*100+q, SOp{K: "read", Off: int64(q*3) % (x.Live.size() / Sec), Len: 8, Reps: len(nodes)}); f != nil {
			return f
		}
		time.Sleep(400 * time.Millisecond)
	}
	// let a fold/removal that began at the last tick finish
	time.Sleep(1500 * time.Millisecond)
	x.Labels["cleaner:ran"]++
	var invalid *Fail
	size := x.Live.size()
	for _, j := range nodes {
		nd := st.Nodes[j]
		nd.fixDrainer()
		r := nd.S.Replica()
		if r == nil {
			return sfail("cleaner|replica-closed", fmt.Sprintf("n%d is no longer open after the cleaner ran", j), "C11")
		}
		b := before[j]
		now, err := r.Chain()
		if err != nil {
			return sfail("cleaner|chain-unreadable-after", err.Error(), "C11", "C12")
		}
		inNow := map[string]bool{}
		for _, d := range now {
			inNow[d] = true
		}
		pos := map[string]int{}
		for k, d := range b.chain {
			pos[d] = k
		}
		var gone []string
		for _, d := range b.chain {
			if !inNow[d] {
				gone = append(gone, d)
			}
		}
		x.tracef("cleaner n%d: checkpoint %q/%q chain %d -> %d, removed %v", j, ctlCP, b.cp, len(b.chain), len(now), gone)
		if len(gone) > ticks {
			return sfail("cleaner|more-than-one-per-tick", fmt.Sprintf("n%d: %v removed in %d tick(s)", j, gone, ticks), "C11")
		}
		retained := func(d string) bool {
			di, ok := b.disks[d]
			name := strings.TrimSuffix(strings.TrimPrefix(d, "volume-snap-"), ".img")
			return ok && di.UserCreated && !di.Removed && x.snapMarked[name] == ""
		}
		for _, d := range gone {
			k := pos[d]
			why := ""
			switch {
			case ctlCP == "" || b.cp == "":
				why = "there is no checkpoint"
			case op.Str == "agentdown":
				why = "its fold into the parent cannot have run (no sync agent)"
			case k == 0 || k == 1 || k == len(b.chain)-1:
				why = "it is the head, the latest or the base snapshot"
			case pos[ctlCP] == 0 && b.chain[0] != ctlCP:
				why = "the checkpoint is not in this chain"
			case k <= pos[ctlCP]:
				why = "it is the checkpoint or newer"
			case retained(d):
				why = "it is a user-created snapshot that was not deleted"
			case k+1 < len(b.chain) && retained(b.chain[k+1]):
				why = "its merge target " + b.chain[k+1] + " is a retained user-created snapshot"
			}
			if why != "" && invalid == nil {
				// reported after the content checks below (which name the damage, if any)
				invalid = sfail("cleaner|invalid-candidate-removed", fmt.Sprintf("n%d: the cleaner removed %s although %s (chain %v, checkpoint %s)", j, d, why, b.chain, ctlCP), "C11")
			}
			x.Labels["cleaner:removed-a-snapshot"]++
		}
		// every retained user snapshot, then the live data, unchanged
		for name, img := range x.snapImg {
			d := snapDisk(name)
			if x.snapMarked[name] != "" {
				continue
			}
			if _, ok := pos[d]; !ok {
				continue // not in this replica's chain (it joined later with a flattened history)
			}
			if !inNow[d] {
				return sfail("cleaner|retained-snapshot-removed", fmt.Sprintf("n%d: user snapshot %s is gone", j, name), "C11")
			}
			got, err := ReadDiskImage(nd.Dir, d, size)
			if err != nil {
				return sfail("cleaner|retained-snapshot-unreadable", fmt.Sprintf("n%d %s: %v", j, name, err), "C11")
			}
			if int64(len(got)) > img.size() {
				got = got[:img.size()]
			}
			if dd := img.Diff(got, 0); dd != "" && !bytes.Equal(got, img.B) {
				return sfail("cleaner|retained-snapshot-changed", fmt.Sprintf("n%d: user snapshot %s after the cleaner removed %v: %s", j, name, gone, dd), "C11", "C06")
			}
			x.Labels["cleaner:snapshot-compared"]++
		}
		buf := make([]byte, size)
		if _, err := nd.S.ReadAt(buf, 0); err != nil {
			return sfail("cleaner|live-unreadable", err.Error(), "C11")
		}
		if d := x.Live.Diff(buf, 0); d != "" {
			if !x.subBlockHit(j, buf, 0) {
				return sfail("cleaner|live-image-changed", fmt.Sprintf("n%d after the cleaner removed %v: %s", j, gone, d), "C11")
			}
		}
	}
	return invalid
}

func genCleanerProgram(t *rapid.T) SProgram {
	// (RF 1 never records a checkpoint - there is no promotion - so its cleaner never acts: one case in ten)
	rf := rapid.SampledFrom([]int{2, 2, 2, 2, 3, 3, 3, 3, 3, 1}).Draw(t, "rf")
	blocks := 12
	total := int64(blocks) * 8
	p := SProgram{RF: rf, Nodes: rf, Blocks: blocks, Init: rf}
	wr := func() SOp {
		off := rapid.Int64Range(0, total-1).Draw(t, "off")
		return SOp{K: "write", Off: off, Len: rapid.Int64Range(1, min64(total-off, 24)).Draw(t, "len"), Seed: rapid.IntRange(1, 250).Draw(t, "seed")}
	}
	nsnap := 0
	round := func() {
		for k := rapid.IntRange(2, 7).Draw(t, "n"); k > 0; k-- {
			switch rapid.IntRange(0, 5).Draw(t, "k") {
			case 0, 1:
				// (a write first: every snapshot holds data of its own, so its removal without a merge shows)
				p.Ops = append(p.Ops, wr(), SOp{K: "snapshot", Name: fmt.Sprintf("u%d", nsnap)})
				nsnap++
			case 2:
				if nsnap > 0 {
					p.Ops = append(p.Ops, SOp{K: "ctldelsnap", N: int64(rapid.IntRange(0, nsnap-1).Draw(t, "del"))})
					break
				}
				fallthrough
			default:
				p.Ops = append(p.Ops, wr())
			}
		}
	}
	round()
	if rf > 1 {
		// replicas leave, come back and are rebuilt: automatic snapshots enter the
		// chain and the promotion that completes the set records the checkpoint
		for c := rapid.IntRange(2, 3).Draw(t, "cycles"); c > 0; c-- {
			n := rapid.IntRange(0, rf-1).Draw(t, "node")
			// (a write first: the automatic snapshot taken when the replica is added back then holds data of its own)
			p.Ops = append(p.Ops, wr(), SOp{K: rapid.SampledFrom([]string{"remove", "nodedrop"}).Draw(t, "leave"), Node: n})
			if rf > 2 && rapid.Bool().Draw(t, "awaywrite") {
				p.Ops = append(p.Ops, wr())
			}
			p.Ops = append(p.Ops, SOp{K: "reconnect", Node: n}, SOp{K: "add", Node: n}, SOp{K: "promote", Node: n})
			round()
		}
		// a user snapshot above everything the cleaner may take: it reads through those snapshots
		p.Ops = append(p.Ops, wr(), SOp{K: "snapshot", Name: fmt.Sprintf("u%d", nsnap)}, wr())
		nsnap++
	} else {
		round()
	}
	c := SOp{K: "cleaner", N: 1, Seed: rapid.IntRange(1, 5000).Draw(t, "cseed")}
	if rapid.IntRange(0, 1).Draw(t, "agentdown") == 0 {
		c.Str = "agentdown"
	}
	p.Ops = append(p.Ops, c)
	return p
}

// TestC06Cleaner — the same programs for C06: whatever the cleaner does, every
// retained user-created snapshot keeps its image.
func TestC06Cleaner(t *testing.T) {
	runStackProperty(t, "C06", "TestC06Cleaner", genCleanerProgram,
		func(p SProgram, x *SExec) bool { return x.Labels["cleaner:snapshot-compared"] > 0 })
}

// TestC11Cleaner — the background cleaner itself (sync.Task.InternalSnapshotCleaner)
// deletes snapshots of replicas serving I/O.
func TestC11Cleaner(t *testing.T) {
	runStackProperty(t, "C11", "TestC11Cleaner", genCleanerProgram,
		func(p SProgram, x *SExec) bool { return x.Labels["cleaner:removed-a-snapshot"] > 0 })
}
