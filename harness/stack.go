package harness

import (
	"fmt"
	"net"
	"net/http"
	"os"
	"path/filepath"
	"strconv"
	"strings"
	"sync"
	"syscall"
	"time"

	"github.com/openebs/jiva/backend/dynamic"
	"github.com/openebs/jiva/backend/remote"
	"github.com/openebs/jiva/controller"
	controllerclient "github.com/openebs/jiva/controller/client"
	controllerrest "github.com/openebs/jiva/controller/rest"
	"github.com/openebs/jiva/rpc"
	"github.com/openebs/jiva/types"
)

// fakeFrontend records what the controller asks of its frontend.
type fakeFrontend struct {
	mu        sync.Mutex
	state     types.State
	Startups  int
	Shutdown_ int
	Resizes   []uint64
}

func (f *fakeFrontend) Startup(name, frontendIP, clusterIP string, size, sectorSize int64, rw types.IOs) error {
	f.mu.Lock()
	defer f.mu.Unlock()
	f.state = types.StateUp
	f.Startups++
	return nil
}
func (f *fakeFrontend) Shutdown() error {
	f.mu.Lock()
	defer f.mu.Unlock()
	f.state = types.StateDown
	f.Shutdown_++
	return nil
}
func (f *fakeFrontend) State() types.State {
	f.mu.Lock()
	defer f.mu.Unlock()
	if f.state == "" {
		return types.StateDown
	}
	return f.state
}
func (f *fakeFrontend) Stats() types.Stats { return types.Stats{} }
func (f *fakeFrontend) Resize(s uint64) error {
	f.mu.Lock()
	defer f.mu.Unlock()
	f.Resizes = append(f.Resizes, s)
	return nil
}

// Signal is one recorded SignalToAdd call.
type Signal struct {
	Addr   string
	Action string
	Err    error
}

// stackFactory delegates Create to the real remote.Factory (so backends are
// real *remote.Remote over real RPC/REST) and records/scripts the two
// bootstrap calls.
type stackFactory struct {
	mu      sync.Mutex
	real    types.BackendFactory
	Signals []Signal
	Probes  []string
	SigErr  map[string]int  // address -> number of upcoming start signals that fail
	Dead    map[string]bool // address -> VerifyReplicaAlive answers false
	Forward bool            // forward SignalToAdd / VerifyReplicaAlive to the node's REST
	// ForwardAlive: only the liveness probe goes to the node (the product's own
	// remote.Factory.VerifyReplicaAlive against the node's /ping); signals stay scripted
	ForwardAlive bool
	Creates      []string
	gate         chan struct{}
	gateAddr     string // when set, the gate holds only the Create for this address
}

func (f *stackFactory) Create(address string) (types.Backend, error) {
	f.mu.Lock()
	f.Creates = append(f.Creates, address)
	g := f.gate
	if f.gateAddr != "" && f.gateAddr != address {
		g = nil // only the named replica's connection is held
	}
	f.mu.Unlock()
	if g != nil {
		// held here by an "addrace" step: the controller has admitted the
		// request and released its lock for the duration of the connection
		select {
		case <-g:
		case <-time.After(10 * time.Second):
		}
	}
	return f.real.Create(address)
}

func (f *stackFactory) setGate(g chan struct{}) {
	f.mu.Lock()
	f.gate = g
	f.gateAddr = ""
	f.mu.Unlock()
}

func (f *stackFactory) setGateFor(addr string, g chan struct{}) {
	f.mu.Lock()
	f.gate = g
	f.gateAddr = addr
	f.mu.Unlock()
}

func (f *stackFactory) nCreates() int {
	f.mu.Lock()
	defer f.mu.Unlock()
	return len(f.Creates)
}

func (f *stackFactory) SignalToAdd(address, action string) error {
	f.mu.Lock()
	var err error
	if f.SigErr[address] > 0 && action == "start" {
		f.SigErr[address]--
		err = fmt.Errorf("injected signal failure for %s", address)
	}
	fw := f.Forward
	f.mu.Unlock()
	if err == nil && fw {
		err = f.real.SignalToAdd(address, action)
	}
	f.mu.Lock()
	f.Signals = append(f.Signals, Signal{Addr: address, Action: action, Err: err})
	f.mu.Unlock()
	return err
}

func (f *stackFactory) VerifyReplicaAlive(address string) bool {
	f.mu.Lock()
	f.Probes = append(f.Probes, address)
	dead := f.Dead[address]
	fw := f.Forward || f.ForwardAlive
	f.mu.Unlock()
	if dead && !f.ForwardAlive {
		return false
	}
	if fw {
		return f.real.VerifyReplicaAlive(address)
	}
	return true
}

func (f *stackFactory) SignalsCopy() []Signal {
	f.mu.Lock()
	defer f.mu.Unlock()
	return append([]Signal{}, f.Signals...)
}

// Stack = the real controller wired to in-process nodes.
type Stack struct {
	Base   string
	RF     int
	Size   int64
	C      *controller.Controller
	Front  *fakeFrontend
	Fac    *stackFactory
	Nodes  []*Node
	Fast   bool
	slot   int
	CtrlIP string
	ctrlLn net.Listener
	System bool
	// RegAll: at bring-up all initial replicas register before the volume starts
	RegAll bool
	// PromoWindow, when set, runs between VerifyRebuildReplica and SetRebuilding(false)
	PromoWindow func()
}

var slotSeq int

// caseSlot hands out a fresh /24 per case inside the shard's /16 so that
// goroutines left over from earlier cases talk to dead addresses.
func caseSlot() int {
	if slotSeq == 0 {
		// start at a per-process offset so that two checks running at the
		// same time rarely meet on the same loopback addresses
		slotSeq = envInt("VERIF_SLOT", (os.Getpid()*37)%250+1) - 1
	}
	slotSeq++
	return (slotSeq-1)%250 + 1
}

func nodeIP(slot, n int) string {
	return fmt.Sprintf("127.%d.%d.%d", 16+shardNo()%64, slot, 10+n)
}

// SetStackTimeouts shortens the RPC deadlines and the monitor ping period.
func SetStackTimeouts(rw, ping time.Duration, pingEvery time.Duration) {
	rpc.VerifSetTimeouts(rw, rw, rw, rw, ping)
	remote.VerifSetPingInterval(pingEvery)
}

// NewStack creates nNodes nodes with empty replicas of the given size and a controller with RF.
func NewStack(rf, nNodes int, size int64) (*Stack, error) {
	startHoleCreator()
	clearFatal()
	takeDPPanic()
	types.MaxChainLength = 0
	types.ShouldPunchHoles = false
	base := newCaseDir("stack")
	st := &Stack{Base: base, RF: rf, Size: size, Fast: os.Getenv("VERIF_REAL_DRAINER") == "", slot: caseSlot()}
	os.Setenv("REPLICATION_FACTOR", strconv.Itoa(rf))
	st.Front = &fakeFrontend{}
	st.Fac = &stackFactory{real: dynamic.New(map[string]types.BackendFactory{"tcp": remote.New()}), SigErr: map[string]int{}, Dead: map[string]bool{}}
	st.C = controller.NewController(
		controller.WithName("vol"),
		controller.WithFrontend(st.Front, ""),
		controller.WithBackend(st.Fac),
		controller.WithRF(rf),
		controller.WithClusterIP(""),
	)
	for attempt := 0; ; attempt++ {
		var err error
		st.Nodes = nil
		for i := 0; i < nNodes; i++ {
			var n *Node
			n, err = NewNode(fmt.Sprintf("n%d", i), nodeIP(st.slot, i), nodeDir(base, i), size, st.Fast)
			if err != nil {
				break
			}
			st.Nodes = append(st.Nodes, n)
		}
		if err == nil {
			break
		}
		for _, n := range st.Nodes {
			n.Shutdown()
		}
		if attempt >= 20 || !strings.Contains(err.Error(), "address already in use") {
			st.Destroy()
			return nil, err
		}
		// another check is using this /24: move on
		os.RemoveAll(base)
		os.MkdirAll(base, 0700)
		st.slot = caseSlot()
	}
	return st, nil
}

// EnableSystem starts what the real rebuild needs: the controller's REST API on
// <ctrl ip>:9501 and one sync-agent child per node with disjoint ssync port ranges.
func (st *Stack) EnableSystem() error {
	if st.System {
		return nil
	}
	bin := os.Getenv("VERIF_JIVA_BIN")
	if bin == "" {
		return fmt.Errorf("VERIF_JIVA_BIN not set")
	}
	if err := st.EnableCtrlREST(); err != nil {
		return err
	}
	return st.enableAgents()
}

// EnableCtrlREST starts the controller's REST API on <ctrl ip>:9501.
func (st *Stack) EnableCtrlREST() error {
	if st.ctrlLn != nil {
		return nil
	}
	// (another check running at the same time may sit on the same /24: try a few addresses)
	var ln net.Listener
	var err error
	for k := 200; k < 210; k++ {
		st.CtrlIP = nodeIP(st.slot, k)
		if ln, err = net.Listen("tcp", st.CtrlIP+":9501"); err == nil {
			break
		}
	}
	if err != nil {
		return err
	}
	st.ctrlLn = ln
	st.serveController()
	return nil
}

var (
	portBlock     = -1
	portBlockFile *os.File
)

// portBase claims a block of 256 TCP ports for this process (ssync receivers
// listen on all interfaces, so two checks running at the same time must not
// share a range). The claim is a flock on a file that lives as long as the process.
func portBase() int {
	// blocks of 256 ports below the kernel's ephemeral range (32768-60999): a
	// receiver port inside that range is now and then taken by an outgoing
	// connection of some other process, and the transfer then times out
	const first, nblocks = 10240, 88
	if portBlock >= 0 {
		return first + 256*portBlock
	}
	dir := "/root/verif-scratch/.portlocks"
	os.MkdirAll(dir, 0755)
	start := (os.Getpid() * 31) % nblocks
	for attempt := 0; attempt < 240; attempt++ {
		for k := 0; k < nblocks; k++ {
			b := (start + k) % nblocks
			f, err := os.OpenFile(filepath.Join(dir, fmt.Sprintf("b%03d", b)), os.O_CREATE|os.O_RDWR, 0644)
			if err != nil {
				continue
			}
			if err := syscall.Flock(int(f.Fd()), syscall.LOCK_EX|syscall.LOCK_NB); err != nil {
				f.Close()
				continue
			}
			portBlock, portBlockFile = b, f
			return first + 256*b
		}
		time.Sleep(500 * time.Millisecond) // every block is taken by another check: wait for one
	}
	panic("HARNESS ERROR: no free port block within 120 s")
}

func (st *Stack) enableAgents() error {
	bin := os.Getenv("VERIF_JIVA_BIN")
	base := portBase()
	for i, n := range st.Nodes {
		if err := n.StartAgent(bin, base+40*i, base+40*i+39); err != nil {
			return err
		}
	}
	st.System = true
	return nil
}

func (st *Stack) serveController() {
	// the handler looks the controller up on every request: it may be replaced (RestartController)
	go http.Serve(st.ctrlLn, http.HandlerFunc(func(w http.ResponseWriter, r *http.Request) {
		controllerrest.NewRouter(controllerrest.NewServer(st.C)).ServeHTTP(w, r)
	}))
}

func (st *Stack) CtrlURL() string { return "http://" + st.CtrlIP + ":9501" }

func (st *Stack) Destroy() {
	if st.ctrlLn != nil {
		st.ctrlLn.Close()
	}
	done := make(chan struct{})
	go func() {
		for _, n := range st.Nodes {
			n.Stop()
		}
		if st.C != nil {
			st.C.Shutdown()
		}
		for _, n := range st.Nodes {
			n.Shutdown()
		}
		close(done)
	}()
	select {
	case <-done:
	case <-time.After(30 * time.Second):
	}
	os.RemoveAll(st.Base)
}

func (st *Stack) NodeByAddr(addr string) *Node {
	for _, n := range st.Nodes {
		if n.Addr == addr {
			return n
		}
	}
	return nil
}

// RegisterREST registers the way a replica process does: the product's
// controller client posts to the controller's REST API (/v1/register), whose
// handler hands the registration to Controller.RegisterReplica.
func (st *Stack) RegisterREST(reg types.RegReplica) error {
	if err := st.EnableCtrlREST(); err != nil {
		return err
	}
	return controllerclient.NewControllerClient(st.CtrlURL()).Register(reg.Address, reg.UUID, reg.RevCount, reg.RepType, reg.UpTime, reg.RepState)
}

// Register lets node i register (as a restarted replica does) and returns the
// addresses (IPs) that received a successful "start" signal as a result.
func (st *Stack) Register(i int) ([]string, error) {
	n := st.Nodes[i]
	rev, _ := n.S.GetRevisionCounter()
	_, info := n.S.Status()
	uuid := info.UUID
	if uuid == "" {
		uuid = "uuid-" + n.Name
	}
	state, _ := n.S.PrevStatus()
	before := len(st.Fac.SignalsCopy())
	if err := st.RegisterREST(types.RegReplica{Address: n.IP, UUID: uuid, RevCount: rev, RepType: "Backend", RepState: string(state)}); err != nil {
		return nil, fmt.Errorf("register: %v", err)
	}
	var out []string
	for _, sg := range st.Fac.SignalsCopy()[before:] {
		if sg.Action == "start" && sg.Err == nil {
			out = append(out, sg.Addr)
		}
	}
	return out, nil
}

// Boot registers node i; every replica that gets the "start" signal starts
// the volume (what the replica process does on receiving it). Returns the
// index of the node that started the volume, or -1.
func (st *Stack) Boot(i int) (int, error) {
	sig, err := st.Register(i)
	if err != nil {
		return -1, err
	}
	for _, ip := range sig {
		for j, n := range st.Nodes {
			if n.IP == ip {
				if err := st.C.Start(n.Addr); err != nil {
					return j, fmt.Errorf("start n%d: %v", j, err)
				}
				return j, nil
			}
		}
	}
	return -1, nil
}

// Mode returns the mode the controller lists for node i ("" = not listed).
func (st *Stack) Mode(i int) types.Mode {
	for _, r := range st.C.VerifState().Replicas {
		if r.Address == st.Nodes[i].Addr {
			return r.Mode
		}
	}
	return ""
}

// FastSync is the file transfer of a rebuild done by the harness: every
// snapshot (data + meta) of the source chain is copied extent-exactly,
// oldest first, and the target's head meta takes the source head's parent —
// what sync.syncFiles and PrepareRebuild do through the sync agent.
func (st *Stack) FastSync(src, dst int) error {
	s, d := st.Nodes[src], st.Nodes[dst]
	sr := s.S.Replica()
	dr := d.S.Replica()
	if sr == nil || dr == nil {
		return fmt.Errorf("fastsync: replica not open")
	}
	sc, err := sr.Chain()
	if err != nil {
		return err
	}
	dc, err := dr.Chain()
	if err != nil {
		return err
	}
	// head meta (PrepareRebuildReplica)
	if err := CopyFileExact(filepath.Join(s.Dir, sc[0]+".meta"), filepath.Join(d.Dir, dc[0]+".meta")); err != nil {
		return err
	}
	for i := len(sc) - 1; i >= 1; i-- {
		for _, suf := range []string{"", ".meta"} {
			if err := CopyFileExact(filepath.Join(s.Dir, sc[i]+suf), filepath.Join(d.Dir, sc[i]+suf)); err != nil {
				return err
			}
		}
	}
	return nil
}

// Promote runs the rebuild protocol for node dst (currently WO) with the
// harness doing the file transfer: SetRebuilding(true), file copy, reload
// without preload, UpdateLUNMap, VerifyRebuildReplica, SetRebuilding(false).
func (st *Stack) Promote(src, dst int) error {
	d := st.Nodes[dst]
	if err := d.S.SetRebuilding(true); err != nil {
		return fmt.Errorf("setrebuilding(true): %v", err)
	}
	if err := st.FastSync(src, dst); err != nil {
		return err
	}
	d.S.SetPreload(false)
	punch := types.ShouldPunchHoles
	err := d.S.Reload()
	// Reload switches reclamation on for the process; in the harness all
	// replicas share that flag, keep it as the case configured it
	types.ShouldPunchHoles = punch
	d.S.SetPreload(true)
	d.fixDrainer()
	if err != nil {
		return fmt.Errorf("reload: %v", err)
	}
	if err := d.S.Replica().SyncDir(); err != nil {
		return err
	}
	if err := d.S.UpdateLUNMap(); err != nil {
		return err
	}
	if err := st.C.VerifyRebuildReplica(d.Addr); err != nil {
		return fmt.Errorf("verify: %v", err)
	}
	// the replica is RW for the controller but still flagged rebuilding: the
	// product's last step is a separate request from the replica process
	if st.PromoWindow != nil {
		st.PromoWindow()
	}
	if err := d.S.SetRebuilding(false); err != nil {
		return fmt.Errorf("setrebuilding(false): %v", err)
	}
	return nil
}

// FirstRW returns the index of an RW node (as listed by the controller) or -1.
func (st *Stack) FirstRW() int {
	for _, r := range st.C.VerifState().Replicas {
		if r.Mode == types.RW {
			for i, n := range st.Nodes {
				if n.Addr == r.Address {
					return i
				}
			}
		}
	}
	return -1
}

// BringUp boots node 0 and adds+promotes nodes 1..k-1 (all RW afterwards).
func (st *Stack) BringUp(k int) error {
	// a majority of the RF replicas registers; the first one (all revisions
	// are equal on fresh replicas) is signalled and starts the volume
	started := -1
	if st.RegAll {
		// all k replicas come up together: every one of them registers before the
		// elected one has started the volume (a replica process registers for as
		// long as the volume reports no replicas)
		var sig []string
		for j := 0; j < k && j < len(st.Nodes); j++ {
			s, err := st.Register(j)
			if err != nil {
				return err
			}
			sig = append(sig, s...)
		}
		for _, ip := range sig {
			for j, n := range st.Nodes {
				if n.IP == ip && started < 0 {
					if err := st.C.Start(n.Addr); err != nil {
						return fmt.Errorf("start n%d: %v", j, err)
					}
					started = j
				}
			}
		}
		if started < 0 && k > st.RF/2 {
			return fmt.Errorf("bring-up: %d replicas registered (RF=%d), nobody was asked to start", k, st.RF)
		}
	}
	for j := 0; j <= st.RF/2 && j < len(st.Nodes) && started < 0; j++ {
		var err error
		if started, err = st.Boot(j); err != nil {
			return err
		}
	}
	if started != 0 {
		return fmt.Errorf("bring-up: expected n0 to start the volume, got n%d", started)
	}
	for i := 1; i < k; i++ {
		if err := st.C.AddReplica(st.Nodes[i].Addr); err != nil {
			return fmt.Errorf("add n%d: %v", i, err)
		}
		if err := st.Promote(0, i); err != nil {
			return fmt.Errorf("promote n%d: %v", i, err)
		}
	}
	return nil
}
