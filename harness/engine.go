package harness

import (
	"fmt"
	"os"
	"path/filepath"
	"sort"
	"strconv"
	"strings"
	"sync"
	"syscall"
	"time"

	"github.com/openebs/jiva/replica"
	jsync "github.com/openebs/jiva/sync"
	"github.com/openebs/jiva/types"
	"github.com/openebs/sparse-tools/sparse"
	"github.com/sirupsen/logrus"
)

// Fail describes an oracle violation found by an executor.
type Fail struct {
	Props  []string // properties the violated oracle belongs to
	Sig    string   // stable signature (input-level facts only)
	Detail string
}

func (f *Fail) Has(p string) bool {
	for _, x := range f.Props {
		if x == p {
			return true
		}
	}
	return false
}

func (f *Fail) String() string {
	return fmt.Sprintf("%v %s: %s", f.Props, f.Sig, f.Detail)
}

// ---- process-wide plumbing -------------------------------------------------

var (
	fatalMu  sync.Mutex
	fatalMsg string
	lastLog  string
)

type logHook struct{}

func (logHook) Levels() []logrus.Level {
	return []logrus.Level{logrus.FatalLevel, logrus.PanicLevel}
}
func (logHook) Fire(e *logrus.Entry) error {
	fatalMu.Lock()
	lastLog = e.Message
	fatalMu.Unlock()
	return nil
}

// installFatalCapture makes logrus.Fatal* record a message and park the
// goroutine instead of exiting the harness process.
func installFatalCapture() {
	logrus.AddHook(logHook{})
	logrus.StandardLogger().ExitFunc = func(code int) {
		fatalMu.Lock()
		fatalMsg = "process would have exited (logrus.Fatal): " + lastLog
		fatalMu.Unlock()
		select {} // park
	}
}

func takeFatal() string {
	fatalMu.Lock()
	defer fatalMu.Unlock()
	m := fatalMsg
	return m
}

func clearFatal() {
	fatalMu.Lock()
	fatalMsg = ""
	fatalMu.Unlock()
}

var holeOnce sync.Once

func startHoleCreator() {
	holeOnce.Do(func() { go replica.CreateHoles() })
}

type noFold struct{}

func (noFold) UpdateFoldFileProgress(progress int, done bool, err error) {}

// ---- engine ----------------------------------------------------------------

type Engine struct {
	Dir         string
	S           *replica.Server
	M           *Model
	Fast        bool
	step        int
	Trace       []string
	Created     map[string]string
	barrier     *os.File
	Labels      map[string]int
	lastOp      string
	LastRemoved string // target of the last successful cleaner-style removal
	LastErr     error  // error of the last management call (nil = accepted)
	// configuration
	CheckSnaps bool
	// FollowInvalidCandidates: when the product offers a deletion candidate the
	// statement of C11 forbids because of a retained user snapshot (the candidate
	// itself, or its merge target), do not stop there: carry the deletion out as
	// the cleaner would and let the snapshot-immutability oracle (C06) decide.
	FollowInvalidCandidates bool
	CheckCounter            bool
	CheckChain              bool
	preload                 bool
}

func scratchRoot() string {
	if v := os.Getenv("VERIF_SCRATCH"); v != "" {
		for _, a := range os.Args {
			if strings.HasPrefix(a, "-test.fuzzworker") {
				// the workers of a native fuzzing run share the environment: one directory each
				return filepath.Join(v, fmt.Sprintf("w%d", os.Getpid()))
			}
		}
		return v
	}
	return filepath.Join("/root/verif-scratch", fmt.Sprintf("adhoc-%d", os.Getpid()))
}

var caseSeq int

func newCaseDir(tag string) string {
	caseSeq++
	d := filepath.Join(scratchRoot(), fmt.Sprintf("%s-%d", tag, caseSeq))
	os.RemoveAll(d)
	os.MkdirAll(d, 0700)
	return d
}

func NewEngine(p Program) (*Engine, error) {
	startHoleCreator()
	clearFatal()
	base := newCaseDir("eng")
	dir := filepath.Join(base, "replica")
	e := &Engine{Dir: dir, Fast: !p.RealDrainer && os.Getenv("VERIF_REAL_DRAINER") == "", Created: map[string]string{},
		Labels: map[string]int{}, CheckSnaps: true, CheckCounter: true, CheckChain: true, preload: true}
	size := int64(p.Blocks) * Blk
	types.MaxChainLength = p.MaxChain
	types.ShouldPunchHoles = false
	e.M = NewModel(size, p.MaxChain)
	e.S = replica.NewServer("127.0.0.1:9502", dir, 512, "")
	if err := os.MkdirAll(dir, 0700); err != nil {
		return nil, err
	}
	if err := e.S.Create(size); err != nil {
		return nil, fmt.Errorf("create: %v", err)
	}
	if err := e.S.Open(); err != nil {
		return nil, fmt.Errorf("open: %v", err)
	}
	e.M.Open = true
	e.fixDrainer()
	if err := e.S.SetReplicaMode("RW"); err != nil {
		return nil, err
	}
	e.M.Mode = "RW"
	bf, err := os.OpenFile(filepath.Join(base, "barrier.img"), os.O_CREATE|os.O_RDWR, 0600)
	if err != nil {
		return nil, err
	}
	e.barrier = bf
	return e, nil
}

func (e *Engine) BaseDir() string { return filepath.Dir(e.Dir) }

func (e *Engine) fixDrainer() {
	if e.Fast && e.S.Replica() != nil {
		e.S.Replica().VerifSetHoleDrainer(replica.VerifFastHoleDrainer)
	}
}

// Destroy closes the server (if open) and removes the case directory.
func (e *Engine) Destroy() {
	if e.S != nil && e.S.Replica() != nil && takeFatal() == "" {
		e.fixDrainer()
		done := make(chan struct{})
		go func() { e.S.Close(); close(done) }()
		select {
		case <-done:
		case <-time.After(20 * time.Second):
		}
	}
	if e.barrier != nil {
		e.barrier.Close()
	}
	os.RemoveAll(e.BaseDir())
}

// HoleBarrier waits until every punch request queued so far has executed.
func (e *Engine) HoleBarrier() error {
	buf := make([]byte, Blk)
	for i := range buf {
		buf[i] = 0xff
	}
	if _, err := e.barrier.WriteAt(buf, 0); err != nil {
		return err
	}
	if err := e.barrier.Sync(); err != nil {
		return err
	}
	replica.VerifSendHole(e.barrier, 0, Blk)
	deadline := time.Now().Add(30 * time.Second)
	for {
		_, err := syscall.Seek(int(e.barrier.Fd()), 0, seekData)
		if err == syscall.ENXIO {
			return nil
		}
		if m := takeFatal(); m != "" {
			return fmt.Errorf("fatal while waiting for hole barrier: %s", m)
		}
		if time.Now().After(deadline) {
			return fmt.Errorf("hole barrier timed out")
		}
		time.Sleep(50 * time.Microsecond)
	}
}

// holeBarrierAt waits until every hole queued so far has been punched: a block of
// a scratch file is queued behind them and polled until it has become a hole.
func holeBarrierAt(path string) error {
	f, err := os.OpenFile(path, os.O_RDWR|os.O_CREATE|os.O_TRUNC, 0600)
	if err != nil {
		return err
	}
	defer os.Remove(path)
	defer f.Close()
	buf := make([]byte, Blk)
	for i := range buf {
		buf[i] = 0xff
	}
	if _, err := f.WriteAt(buf, 0); err != nil {
		return err
	}
	if err := f.Sync(); err != nil {
		return err
	}
	replica.VerifSendHole(f, 0, Blk)
	deadline := time.Now().Add(30 * time.Second)
	for {
		_, err := syscall.Seek(int(f.Fd()), 0, seekData)
		if err == syscall.ENXIO {
			return nil
		}
		if time.Now().After(deadline) {
			return fmt.Errorf("hole barrier timed out")
		}
		time.Sleep(50 * time.Microsecond)
	}
}

func (e *Engine) tracef(f string, a ...interface{}) {
	e.Trace = append(e.Trace, fmt.Sprintf("#%d ", e.step)+fmt.Sprintf(f, a...))
}

func fail(sig, detail string, props ...string) *Fail {
	return &Fail{Props: props, Sig: sig, Detail: detail}
}

// chainSnapByIndex resolves a selector against the live-chain snapshots
// (newest first). Returns nil if there are none.
func (e *Engine) chainSnap(sel int) *Snap {
	sn := e.M.ChainSnaps()
	if len(sn) == 0 {
		return nil
	}
	if sel < 0 {
		sel = -sel
	}
	return sn[sel%len(sn)]
}

func (e *Engine) nameTaken(name string) bool {
	d := snapDisk(name)
	if _, ok := e.M.Snaps[d]; ok {
		return true
	}
	return e.M.Orphans[d]
}

// Step executes one op against the engine and the model and then verifies.
func (e *Engine) Step(i int, op Op) *Fail {
	e.step = i
	e.lastOp = op.K
	e.Labels["op:"+op.K]++
	if f := e.apply(i, op); f != nil {
		return f
	}
	if m := takeFatal(); m != "" {
		return fail("engine|"+op.K+"|process-exit", m, "C14", "C12")
	}
	return e.Verify()
}

func (e *Engine) apply(i int, op Op) *Fail {
	m := e.M
	s := e.S
	switch op.K {
	case "comb":
		// op.N single-block writes, op.Len blocks apart, from block op.Off on: a file
		// with that many extents (one FIEMAP call returns at most 1024)
		if !m.Open || m.Mode != "RW" {
			return nil
		}
		stride := op.Len
		if stride < 2 {
			stride = 2
		}
		done := int64(0)
		for k := int64(0); k < op.N; k++ {
			off := (op.Off + k*stride) * Blk
			if off+Blk > m.Size {
				break
			}
			data := payload(i, op.Seed, off, Blk)
			if _, err := s.WriteAt(data, off); err != nil {
				return fail("write|RW|error", fmt.Sprintf("comb write off=%d failed: %v", off, err), "C01")
			}
			m.Write(off, data)
			m.Counter++
			done++
		}
		e.tracef("comb from block %d, %d writes every %d blocks", op.Off, done, stride)
		e.Labels["write:comb"]++
	case "write":
		off, length := op.Off*Sec, op.Len*Sec
		if off+length > m.Size {
			return nil // generator produced an out-of-volume I/O after a model change; dropped
		}
		data := payload(i, op.Seed, off, length)
		_, err := s.WriteAt(data, off)
		e.tracef("write off=%d len=%d -> %v", off, length, err)
		if !m.Open {
			if err == nil {
				return fail("write|closed|accepted", "write on closed replica returned nil", "C17")
			}
			return nil
		}
		switch m.Mode {
		case "RW":
			if err != nil {
				return fail("write|RW|error", fmt.Sprintf("write off=%d len=%d failed: %v", off, length, err), "C01")
			}
			m.Write(off, data)
			m.Counter++
		case "WO":
			if err != nil {
				return fail("write|WO|error", fmt.Sprintf("write off=%d len=%d failed: %v", off, length, err), "C01", "C17")
			}
			m.Write(off, data)
		default:
			if err == nil && length > 0 {
				return fail("write|"+m.Mode+"|acknowledged", "write acknowledged in mode "+m.Mode, "C17")
			}
			// bytes may or may not have been stored: not judged
			if length > 0 {
				for sct := off / Sec; sct < (off+length)/Sec; sct++ {
					m.Live.Indet[sct] = true
				}
			}
		}
		if length > Blk {
			e.Labels["write:multiblock"]++
		}
		if off%Blk != 0 || (off+length)%Blk != 0 {
			e.Labels["write:unaligned"]++
		}
	case "read":
		off, length := op.Off*Sec, op.Len*Sec
		if off+length > m.Size || !m.Open {
			return nil
		}
		buf := make([]byte, length)
		_, err := s.ReadAt(buf, off)
		if err != nil {
			return fail("read|error", fmt.Sprintf("read off=%d len=%d: %v", off, length, err), "C01")
		}
		if d := m.Live.Diff(buf, off); d != "" {
			return fail("read|mismatch", fmt.Sprintf("read off=%d len=%d after %s: %s", off, length, e.lastOp, d), "C01")
		}
	case "snap":
		if !m.Open {
			return nil
		}
		created := fmt.Sprintf("T%04d", i)
		taken := e.nameTaken(op.Name)
		clen := len(m.Chain)
		err := s.Snapshot(op.Name, op.User, created)
		e.tracef("snapshot %s user=%v -> %v", op.Name, op.User, err)
		e.fixDrainer()
		if taken {
			e.Labels["snap:duplicate"]++
			if err == nil {
				return fail("snapshot|name=duplicate|accepted", "snapshot with an existing name "+op.Name+" succeeded", "C12")
			}
			return nil
		}
		mustRefuse := m.MaxChain > 0 && clen >= m.MaxChain
		mustAccept := m.MaxChain == 0 || clen+2 < m.MaxChain
		if err != nil {
			if mustAccept {
				return fail("snapshot|fresh|refused", fmt.Sprintf("snapshot %s refused: %v", op.Name, err), "C12")
			}
			e.Labels["snap:toolong"]++
			return nil
		}
		if mustRefuse {
			return fail("snapshot|chain-too-long|accepted", fmt.Sprintf("snapshot accepted with chain length %d, max %d", clen, m.MaxChain), "C12")
		}
		m.Snapshot(op.Name, op.User)
		e.Created[snapDisk(op.Name)] = created
		if op.User {
			e.Labels["snap:user"]++
		}
	case "markrm":
		// user-requested deletion: the controller only marks the snapshot removed
		if !m.Open {
			return nil
		}
		sn := e.chainSnap(op.Sel)
		if sn == nil {
			return nil
		}
		name := sn.Name
		if op.On { // pass the full disk name instead of the short one
			name = sn.Disk
		}
		idx := m.InChain(sn.Disk)
		acts, err := s.PrepareRemoveDisk(name)
		e.tracef("prepareremove %s -> %v %v", name, acts, err)
		protected := idx == 1 || idx == len(m.Chain)-1
		if m.Mode != "RW" {
			if err == nil {
				return fail("prepareremove|mode="+m.Mode+"|accepted", "PrepareRemoveDisk accepted in mode "+m.Mode, "C17", "C11")
			}
			return nil
		}
		if protected {
			if err == nil {
				which := "latest"
				if idx == len(m.Chain)-1 {
					which = "base"
				}
				return fail("prepareremove|target="+which+"|accepted", "PrepareRemoveDisk accepted "+which+" snapshot "+sn.Disk, "C11")
			}
			return nil
		}
		if err != nil {
			return fail("prepareremove|valid|refused", fmt.Sprintf("PrepareRemoveDisk(%s) refused: %v", name, err), "C12")
		}
		sn.Removed = true
		e.Labels["markrm:ok"]++
	case "remove":
		return e.removeViaCleaner(op)
	case "rmdirect":
		// direct RemoveDiffDisk / PrepareRemoveDisk on a protected or unknown disk
		if !m.Open {
			return nil
		}
		var target, which string
		switch op.Sel % 4 {
		case 0:
			target, which = m.Head(), "head"
		case 1:
			target, which = m.Latest(), "latest"
		case 2:
			target, which = "volume-snap-nosuch.img", "unknown"
		case 3:
			target, which = m.Chain[len(m.Chain)-1], "base"
		}
		if target == "" {
			return nil
		}
		if op.On {
			_, err := s.PrepareRemoveDisk(target)
			e.tracef("prepareremove(direct) %s -> %v", target, err)
			if which == "unknown" {
				return nil // (nil,nil) is the documented answer for an unknown disk
			}
			if which == "base" && len(m.Chain) == 1 {
				which = "head"
			}
			if err == nil {
				return fail("prepareremove|target="+which+"|accepted", "PrepareRemoveDisk accepted "+which+" "+target, "C11")
			}
			// refused means not accepted for deletion in any form: the snapshot is
			// not left marked as removed (the cleaner would take it later)
			if di, ok := s.Replica().ListDisks()[target]; ok && m.Snaps[target] != nil && di.Removed != m.Snaps[target].Removed {
				return fail("prepareremove|target="+which+"|refused-but-marked", fmt.Sprintf("PrepareRemoveDisk refused %s %s (%v) but its removed flag is now %v", which, target, err, di.Removed), "C11", "C12")
			}
			return nil
		}
		if which == "base" && len(m.Chain) > 2 {
			// RemoveDiffDisk does not promise to refuse the base; the statement
			// only names head and latest for it. Not generated.
			return nil
		}
		err := s.RemoveDiffDisk(target)
		e.tracef("removediffdisk(direct) %s -> %v", target, err)
		e.fixDrainer()
		if which == "unknown" {
			return nil
		}
		if err == nil {
			return fail("removedisk|target="+which+"|accepted", "RemoveDiffDisk accepted "+which+" "+target, "C11")
		}
	case "revert":
		if !m.Open {
			return nil
		}
		if op.Str != "" {
			err := s.Revert(op.Str, fmt.Sprintf("T%04d", i))
			e.tracef("revert %s -> %v", op.Str, err)
			e.fixDrainer()
			if err == nil {
				return fail("revert|name=unknown|accepted", "revert to unknown snapshot "+op.Str+" succeeded", "C12")
			}
			return nil
		}
		if op.Name != "" {
			// a target addressed by name: in the live chain, or cut out of it by an earlier revert
			d := snapDisk(op.Name)
			if idx := m.InChain(d); idx >= 1 {
				op.Sel, op.On = idx-1, false
			} else if _, ok := m.OrphanSnaps[d]; ok {
				names := []string{}
				for o := range m.OrphanSnaps {
					names = append(names, o)
				}
				sort.Strings(names)
				op.Sel, op.On = sort.SearchStrings(names, d), true
			} else {
				return nil
			}
		}
		if op.On && !m.PunchEver && len(m.OrphanSnaps) > 0 {
			// a snapshot that an earlier revert cut out of the live chain: its files are
			// still there and the product accepts it as a revert target
			var names []string
			for d := range m.OrphanSnaps {
				names = append(names, d)
			}
			sort.Strings(names)
			sel := op.Sel
			if sel < 0 {
				sel = -sel
			}
			d := names[sel%len(names)]
			if _, ok := m.OrphanAncestry(d); ok {
				err := s.Revert(d, fmt.Sprintf("T%04d", i))
				e.tracef("revert (orphan) %s -> %v", d, err)
				e.fixDrainer()
				if err != nil {
					return fail("revert|orphan|refused", fmt.Sprintf("revert to %s (cut out of the live chain by an earlier revert, files intact) failed: %v", d, err), "C06", "C12", "C16")
				}
				m.RevertOrphan(d)
				e.Created[m.Head()] = fmt.Sprintf("T%04d", i)
				e.Labels["revert:ok"]++
				e.Labels["revert:to-orphan"]++
				return nil
			}
		}
		sn := e.chainSnap(op.Sel)
		if sn == nil {
			return nil
		}
		if !sn.User && m.PunchEver {
			return nil // nothing promised about reverting to automatic snapshots once reclamation was on
		}
		if sn.Removed {
			return nil
		}
		if e.M.Punch || e.M.PunchEver {
			if err := e.HoleBarrier(); err != nil {
				panic(err)
			}
		}
		err := s.Revert(sn.Disk, fmt.Sprintf("T%04d", i))
		e.tracef("revert %s -> %v", sn.Disk, err)
		e.fixDrainer()
		if err != nil {
			return fail("revert|valid|refused", fmt.Sprintf("revert to %s failed: %v", sn.Disk, err), "C06", "C12")
		}
		m.Revert(sn.Disk)
		e.Created[m.Head()] = fmt.Sprintf("T%04d", i)
		e.Labels["revert:ok"]++
	case "reopen":
		if !m.Open {
			return nil
		}
		return e.Reopen(op.On)
	case "reload":
		if !m.Open {
			return nil
		}
		if err := e.HoleBarrier(); err != nil {
			panic(err)
		}
		s.SetPreload(op.On)
		err := s.Reload()
		s.SetPreload(true)
		e.tracef("reload preload=%v -> %v", op.On, err)
		e.fixDrainer()
		if err != nil {
			return fail("reload|error", fmt.Sprintf("reload failed: %v", err), "C12")
		}
		m.Punch = types.ShouldPunchHoles
		if m.Punch {
			m.PunchEver = true
		}
		e.Labels["reload"]++
	case "punch":
		types.ShouldPunchHoles = op.On
		m.Punch = op.On
		if op.On {
			m.PunchEver = true
		}
	case "mode":
		if !m.Open {
			return nil
		}
		err := s.SetReplicaMode(op.Str)
		if err != nil {
			return fail("setmode|error", err.Error(), "C17")
		}
		m.Mode = op.Str
	case "unmap":
		off, length := op.Off*Sec, op.Len*Sec
		if off+length > m.Size || !m.Open || length == 0 {
			return nil
		}
		_, err := s.Unmap(off, length)
		e.tracef("unmap off=%d len=%d -> %v", off, length, err)
		if err != nil {
			return fail("unmap|error", err.Error(), "C01")
		}
		m.Live.Unmap(off, length)
		// UNMAP reclaims the blocks wherever their newest copy lives above the latest
		// user-created snapshot - also inside automatic snapshots, whether or not
		// reclamation of overwritten blocks is switched on: their images promise
		// nothing for those blocks from here on (found by FuzzC01Ops: unmap, then a
		// revert to an automatic snapshot)
		for _, d := range m.Chain[1:] {
			sn := m.Snaps[d]
			if sn == nil || sn.User {
				break
			}
			sn.Img.Unmap(off, length)
		}
		e.Labels["unmap"]++
	case "resize":
		if !m.Open {
			return nil
		}
		var arg string
		newSize := op.N * Blk
		if op.Str != "" {
			arg = op.Str
		} else {
			arg = strconv.FormatInt(newSize, 10)
		}
		err := s.Resize(arg)
		e.tracef("resize %s -> %v", arg, err)
		if op.Str != "" {
			if err == nil {
				return fail("resize|arg=garbage|accepted", "resize to "+arg+" accepted", "C16")
			}
			return nil
		}
		if newSize < m.Size {
			if err == nil {
				return fail("resize|shrink|accepted", fmt.Sprintf("shrink %d -> %d accepted", m.Size, newSize), "C16")
			}
			e.Labels["resize:shrink"]++
			return nil
		}
		if err != nil {
			return fail("resize|grow|refused", fmt.Sprintf("grow %d -> %d refused: %v", m.Size, newSize, err), "C16")
		}
		if newSize > m.Size {
			m.Resize(newSize)
			e.Labels["resize:grow"]++
		}
	case "setcp":
		if !m.Open {
			return nil
		}
		cp := ""
		if op.On {
			cp = m.Latest()
		}
		err := s.SetCheckpoint(cp)
		if err != nil {
			return fail("setcheckpoint|error", err.Error(), "C12")
		}
		m.Checkpoint = cp
	case "setrev":
		if !m.Open {
			return nil
		}
		err := s.SetRevisionCounter(op.N)
		e.tracef("setrevisioncounter %d -> %v", op.N, err)
		if m.Mode != "RW" {
			if err == nil {
				return fail("setrevisioncounter|mode="+m.Mode+"|accepted", "SetRevisionCounter accepted in mode "+m.Mode, "C10", "C17")
			}
			return nil
		}
		if err != nil {
			return fail("setrevisioncounter|RW|refused", err.Error(), "C10")
		}
		m.Counter = op.N
	case "lunmap":
		if !m.Open {
			return nil
		}
		err := s.UpdateLUNMap()
		e.tracef("updatelunmap -> %v", err)
		if err != nil {
			return fail("updatelunmap|error", err.Error(), "C06")
		}
		e.Labels["lunmap"]++
	default:
		panic("unknown op " + op.K)
	}
	return nil
}

// Reopen closes and reopens the server (restoring the mode, as the
// controller does when it attaches a replica).
func (e *Engine) Reopen(preload bool) *Fail {
	m := e.M
	s := e.S
	e.fixDrainer()
	if err := s.Close(); err != nil {
		return fail("close|error", err.Error(), "C12")
	}
	s.SetPreload(preload)
	err := s.Open()
	s.SetPreload(true)
	e.tracef("reopen preload=%v -> %v", preload, err)
	if err != nil {
		return fail("open|error", fmt.Sprintf("reopen failed: %v", err), "C12", "C08")
	}
	e.fixDrainer()
	if m.Mode == "RW" || m.Mode == "WO" {
		if err := s.SetReplicaMode(m.Mode); err != nil {
			return fail("setmode|error", err.Error(), "C17")
		}
	}
	if preload {
		e.Labels["reopen:preload"]++
	} else {
		e.Labels["reopen:nopreload"]++
	}
	return nil
}

// removeViaCleaner performs a deletion the way the background cleaner does.
func (e *Engine) removeViaCleaner(op Op) *Fail {
	m, s := e.M, e.S
	if !m.Open || s.Replica() == nil {
		return nil
	}
	for _, d := range m.Chain {
		if m.Short[d] {
			// a snapshot shorter than its parent cannot be folded (sparse.FoldFile
			// refuses): removals in such a chain are not exercised (DESIGN 7.3)
			e.Labels["remove:skipped-short-file-in-chain"]++
			return nil
		}
	}
	cands, err := jsync.GetDeleteCandidateChain(s.Replica(), m.Checkpoint)
	if err != nil {
		return fail("candidates|error", err.Error(), "C11")
	}
	e.tracef("candidates(cp=%q) -> %v", m.Checkpoint, cands)
	forced := ""
	for _, c := range cands {
		if ok, why := m.ValidDeleteCandidate(c); !ok {
			if e.FollowInvalidCandidates && (why == "user snapshot not marked removed" || why == "parent is a retained user snapshot") && forced == "" {
				forced = c
				e.Labels["remove:forbidden-candidate-followed"]++
				continue
			}
			return fail("candidates|contains="+why, fmt.Sprintf("candidate list %v (checkpoint %q, chain %v) contains %s: %s", cands, m.Checkpoint, m.Chain, c, why), "C11")
		}
	}
	if len(cands) == 0 {
		e.Labels["remove:nocandidate"]++
		return nil
	}
	sel := op.Sel
	if sel < 0 {
		sel = -sel
	}
	target := cands[sel%len(cands)]
	if op.Name != "" {
		// a candidate addressed by its snapshot name (if the cleaner offers it)
		for _, cnd := range cands {
			if cnd == snapDisk(op.Name) {
				target = cnd
			}
		}
	}
	var victim *Snap // the retained user snapshot the forbidden deletion touches
	var victimImg *Image
	if forced != "" {
		target = forced
		ts := m.Snaps[target]
		victim = ts
		if !(ts.User && !ts.Removed) {
			victim = m.Snaps[ts.Parent]
		}
		victimImg = victim.Img.Clone()
	}
	acts, err := s.PrepareRemoveDisk(target)
	e.tracef("prepareremove %s -> %v %v", target, acts, err)
	if m.Mode != "RW" {
		if err == nil {
			return fail("prepareremove|mode="+m.Mode+"|accepted", "PrepareRemoveDisk accepted in mode "+m.Mode, "C17", "C11")
		}
		return nil
	}
	if err != nil {
		return fail("prepareremove|candidate|refused", fmt.Sprintf("PrepareRemoveDisk(%s): %v", target, err), "C11")
	}
	m.Snaps[target].Removed = true
	for _, a := range acts {
		switch a.Action {
		case replica.OpCoalesce:
			if err := sparse.FoldFile(filepath.Join(e.Dir, a.Source), filepath.Join(e.Dir, a.Target), noFold{}); err != nil {
				return fail("fold|error", fmt.Sprintf("fold %s -> %s: %v", a.Source, a.Target, err), "C11")
			}
		case replica.OpRemove:
			err := s.RemoveDiffDisk(a.Source)
			e.fixDrainer()
			if err != nil {
				// the engine may refuse (a snapshot whose name was used before still has
				// the old namesake's child on its books): a refusal deletes nothing
				e.tracef("removediffdisk %s refused: %v", a.Source, err)
				e.Labels["remove:refused-by-engine"]++
				for _, suf := range []string{"", ".meta"} {
					if _, serr := os.Stat(filepath.Join(e.Dir, a.Source+suf)); serr != nil {
						return fail("removedisk|refused-but-files-removed", fmt.Sprintf("RemoveDiffDisk(%s) was refused (%v) but %s%s is gone while the snapshot is still in the chain", a.Source, err, a.Source, suf), "C11", "C12")
					}
				}
				return nil
			}
		}
	}
	if victim != nil {
		got, rerr := ReadDiskImage(e.Dir, victim.Disk, m.Size)
		if rerr != nil {
			return fail("snapshot|retained-user-snapshot-lost-by-deletion", fmt.Sprintf("the cleaner's candidate %s was deleted; retained user snapshot %s: %v", target, victim.Disk, rerr), "C06", "C11")
		}
		if int64(len(got)) > victimImg.size() {
			got = got[:victimImg.size()]
		}
		if d := victimImg.Diff(got, 0); d != "" {
			return fail("snapshot|retained-user-snapshot-changed-by-deletion", fmt.Sprintf("the cleaner's candidate %s was merged into retained user snapshot %s, which now reads: %s", target, victim.Disk, d), "C06", "C11")
		}
	}
	e.LastRemoved = target
	m.Remove(target)
	if m.Checkpoint == target {
		m.Checkpoint = ""
	}
	e.Labels["remove:ok"]++
	return nil
}

// Verify runs every oracle of the engine family against the current state.
func (e *Engine) Verify() *Fail {
	m, s := e.M, e.S
	if !m.Open {
		return nil
	}
	after := e.lastOp
	extra := []string{}
	switch after {
	case "remove", "markrm", "rmdirect":
		extra = append(extra, "C11")
	case "resize":
		extra = append(extra, "C16")
	}
	// C01: full read
	buf := make([]byte, m.Size)
	if _, err := s.ReadAt(buf, 0); err != nil {
		return fail("fullread|error", fmt.Sprintf("full read after %s: %v", after, err), append([]string{"C01"}, extra...)...)
	}
	if d := m.Live.Diff(buf, 0); d != "" {
		return fail("fullread|mismatch|after="+after, fmt.Sprintf("live image differs after %s: %s", after, d), append([]string{"C01"}, extra...)...)
	}
	// C16 size
	r := s.Replica()
	if r.Info().Size != m.Size {
		return fail("size|mismatch", fmt.Sprintf("Info().Size=%d want %d", r.Info().Size, m.Size), "C16")
	}
	if e.CheckChain {
		if f := e.verifyChain(); f != nil {
			return f
		}
	}
	if e.CheckCounter {
		if c := r.GetRevisionCounter(); c != m.Counter {
			return fail("counter|mismatch|after="+after, fmt.Sprintf("revision counter %d, model %d after %s", c, m.Counter, after), "C10")
		}
	}
	if e.CheckSnaps {
		sp := append([]string{"C06"}, extra...)
		if e.Labels["remove:ok"] > 0 && after != "remove" && after != "markrm" && after != "rmdirect" {
			// a deletion happened earlier in this history: what it left behind (block map,
			// the index below which nothing is reclaimed) must not let a later operation
			// change a retained user snapshot either
			sp = append(sp, "C11")
		}
		if f := e.verifySnapshots(sp); f != nil {
			return f
		}
	}
	return nil
}

func (e *Engine) verifyChain() *Fail {
	m, s := e.M, e.S
	r := s.Replica()
	chain, err := r.Chain()
	if err != nil {
		return fail("chain|error", fmt.Sprintf("Chain() failed after %s: %v", e.lastOp, err), "C12")
	}
	if strings.Join(chain, ",") != strings.Join(m.Chain, ",") {
		return fail("chain|mismatch|after="+e.lastOp, fmt.Sprintf("chain %v, model %v", chain, m.Chain), "C12")
	}
	seen := map[string]bool{}
	for _, d := range chain {
		if seen[d] {
			return fail("chain|cycle", fmt.Sprintf("disk %s twice in %v", d, chain), "C12")
		}
		seen[d] = true
		for _, suffix := range []string{"", ".meta"} {
			if _, err := os.Stat(filepath.Join(e.Dir, d+suffix)); err != nil {
				return fail("chain|file-missing|after="+e.lastOp, fmt.Sprintf("chain member %s%s missing after %s: %v", d, suffix, e.lastOp, err), "C12")
			}
		}
		st, err := os.Stat(filepath.Join(e.Dir, d))
		if err == nil && m.Short[d] && m.InChain(d) >= 0 && st.Size() < m.Size {
			e.Labels["chain:short-file-of-revived-snapshot"]++
		} else if err == nil && st.Size() != m.Size {
			return fail("chain|file-size", fmt.Sprintf("%s has length %d, volume size %d", d, st.Size(), m.Size), "C16")
		}
	}
	disks := r.ListDisks()
	// the chain the replica reports over REST (what rebuild, clone and the
	// controller's verification consume) must be that same path
	rc, err := r.DisplayChain()
	if err != nil {
		return fail("chain|reported|error", fmt.Sprintf("DisplayChain() failed after %s: %v", e.lastOp, err), "C12")
	}
	for i, d := range rc {
		wantParent := ""
		if i+1 < len(rc) {
			wantParent = rc[i+1]
		}
		if di, ok := disks[d]; !ok || di.Parent != wantParent || (i == 0 && d != chain[0]) {
			return fail("chain|reported|not-a-path|after="+e.lastOp, fmt.Sprintf("reported chain %v is not the path from the head to the base: %s has parent %q (chain %v)", rc, d, di.Parent, chain), "C12")
		}
	}
	if len(rc) == 0 {
		return fail("chain|reported|empty", "DisplayChain() is empty", "C12")
	}
	if len(disks) != len(chain) {
		var extra []string
		for d := range disks {
			if !seen[d] {
				extra = append(extra, d)
			}
		}
		sort.Strings(extra)
		return fail("listdisks|not-in-chain|after="+e.lastOp, fmt.Sprintf("ListDisks reports %v which are not members of the chain %v", extra, chain), "C12")
	}
	for i, d := range chain {
		di, ok := disks[d]
		if !ok {
			return fail("listdisks|missing", fmt.Sprintf("%s not in ListDisks", d), "C12")
		}
		wantParent := ""
		if i+1 < len(chain) {
			wantParent = chain[i+1]
		}
		if di.Parent != wantParent {
			return fail("listdisks|parent", fmt.Sprintf("%s parent %q want %q", d, di.Parent, wantParent), "C12")
		}
		if i > 0 {
			ms := m.Snaps[d]
			if di.UserCreated != ms.User || di.Removed != ms.Removed {
				return fail("listdisks|attrs|after="+e.lastOp, fmt.Sprintf("%s usercreated=%v removed=%v, model %v %v", d, di.UserCreated, di.Removed, ms.User, ms.Removed), "C12")
			}
			if want, ok := e.Created[d]; ok && di.Created != want {
				return fail("listdisks|created", fmt.Sprintf("%s created=%q want %q", d, di.Created, want), "C12")
			}
			// its chain child must be listed as a child
			found := false
			for _, c := range di.Children {
				if c == chain[i-1] {
					found = true
				}
			}
			if !found {
				return fail("listdisks|children|after="+e.lastOp, fmt.Sprintf("%s children %v lack %s", d, di.Children, chain[i-1]), "C12")
			}
		}
	}
	vm, err := readVolMeta(e.Dir)
	if err != nil {
		return fail("volumemeta|unreadable|after="+e.lastOp, err.Error(), "C12", "C08")
	}
	if vm.Head != chain[0] {
		return fail("volumemeta|head", fmt.Sprintf("volume.meta head %s, chain head %s", vm.Head, chain[0]), "C12")
	}
	if vm.Size != m.Size {
		return fail("volumemeta|size", fmt.Sprintf("volume.meta size %d, model %d", vm.Size, m.Size), "C16")
	}
	if vm.Checkpoint != m.Checkpoint {
		return fail("volumemeta|checkpoint", fmt.Sprintf("volume.meta checkpoint %q, model %q", vm.Checkpoint, m.Checkpoint), "C12")
	}
	return nil
}

func (e *Engine) verifySnapshots(props []string) *Fail {
	m := e.M
	ret := m.Retained()
	if len(ret) == 0 {
		return nil
	}
	if m.PunchEver {
		if err := e.HoleBarrier(); err != nil {
			panic(err)
		}
	}
	for _, sn := range ret {
		img, err := ReadDiskImage(e.Dir, sn.Disk, m.Size)
		if err != nil {
			return fail("snapshot|unreadable|after="+e.lastOp, fmt.Sprintf("snapshot %s: %v", sn.Disk, err), props...)
		}
		if d := sn.Img.Diff(img, 0); d != "" {
			return fail("snapshot|image-mismatch|after="+e.lastOp, fmt.Sprintf("user snapshot %s changed after %s (punch=%v): %s", sn.Disk, e.lastOp, m.Punch, d), props...)
		}
	}
	e.Labels["snapcheck"] += len(ret)
	return nil
}

// RevertOnCopy checks, for every retained user snapshot, that reverting a
// copy of the directory to it makes the volume read back exactly its image.
func (e *Engine) RevertOnCopy() *Fail {
	m := e.M
	ret := m.Retained()
	if len(ret) == 0 {
		return nil
	}
	if err := e.HoleBarrier(); err != nil {
		panic(err)
	}
	sort.Slice(ret, func(i, j int) bool { return ret[i].Disk < ret[j].Disk })
	for _, sn := range ret {
		cp := filepath.Join(e.BaseDir(), "copy")
		os.RemoveAll(cp)
		if err := CopyDirExact(e.Dir, cp); err != nil {
			panic(err)
		}
		cs := replica.NewServer("127.0.0.1:9502", cp, 512, "")
		if err := cs.Open(); err != nil {
			os.RemoveAll(cp)
			return fail("copy|open|error", fmt.Sprintf("copy of the directory does not open: %v", err), "C06", "C12")
		}
		if e.Fast {
			cs.Replica().VerifSetHoleDrainer(replica.VerifFastHoleDrainer)
		}
		saved := types.ShouldPunchHoles
		types.ShouldPunchHoles = false
		err := cs.Revert(sn.Disk, "Tcopy")
		types.ShouldPunchHoles = saved
		if err != nil {
			cs.Close()
			os.RemoveAll(cp)
			return fail("revert-on-copy|refused", fmt.Sprintf("revert to %s on a copy failed: %v", sn.Disk, err), "C06")
		}
		if e.Fast {
			cs.Replica().VerifSetHoleDrainer(replica.VerifFastHoleDrainer)
		}
		buf := make([]byte, m.Size)
		_, rerr := cs.ReadAt(buf, 0)
		cs.Close()
		os.RemoveAll(cp)
		if rerr != nil {
			return fail("revert-on-copy|read-error", rerr.Error(), "C06")
		}
		if d := sn.Img.Diff(buf, 0); d != "" {
			return fail("revert-on-copy|image-mismatch", fmt.Sprintf("after revert to %s: %s", sn.Disk, d), "C06")
		}
		e.Labels["revertoncopy"]++
	}
	return nil
}

// Finish is the end-of-case sequence: reopen with the other preload
// setting, verify everything again, then revert-on-copy.
func (e *Engine) Finish() *Fail {
	if !e.M.Open {
		return nil
	}
	e.lastOp = "final-reopen"
	for _, pre := range []bool{false, true} {
		if f := e.Reopen(pre); f != nil {
			return f
		}
		if m := takeFatal(); m != "" {
			return fail("engine|reopen|process-exit", m, "C12")
		}
		if f := e.Verify(); f != nil {
			return f
		}
	}
	if e.CheckSnaps {
		return e.RevertOnCopy()
	}
	return nil
}

// RunProgram executes a whole program; returns the first failure.
func RunProgram(p Program, cfg func(*Engine)) (*Engine, *Fail, error) {
	e, err := NewEngine(p)
	if err != nil {
		return nil, nil, err
	}
	if cfg != nil {
		cfg(e)
	}
	for i, op := range p.Ops {
		if f := e.Step(i, op); f != nil {
			return e, f, nil
		}
	}
	return e, e.Finish(), nil
}
