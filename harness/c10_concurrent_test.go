package harness

import (
	"fmt"
	"sync"
	"testing"

	"pgregory.net/rapid"
)

// ConcCase: concurrent writers on one replica.
type ConcCase struct {
	Blocks  int   `json:"blocks"`
	Writers int   `json:"writers"`
	Per     int   `json:"per"`
	Overlap bool  `json:"overlap"`
	WO      bool  `json:"wo"`
	Lens    []int `json:"lens"` // sectors, cycled
	Reopen  bool  `json:"reopen"`
	// Readers: goroutines that read the revision count all the while (what every GET of
	// the replica's REST resource and every action answer does)
	Readers int `json:"readers,omitempty"`
}

func runConcCase(cc ConcCase) (*Fail, error) {
	e, err := NewEngine(Program{Blocks: cc.Blocks, MaxChain: 0})
	if err != nil {
		return nil, err
	}
	defer e.Destroy()
	if cc.WO {
		if err := e.S.SetReplicaMode("WO"); err != nil {
			return nil, err
		}
	}
	c0 := e.S.Replica().GetRevisionCounter()
	per := int64(cc.Blocks*8) / int64(cc.Writers)
	var wg sync.WaitGroup
	errs := make([]error, cc.Writers)
	stop := make(chan struct{})
	var rwg sync.WaitGroup
	var wentBack string
	var wbMu sync.Mutex
	for r := 0; r < cc.Readers; r++ {
		rwg.Add(1)
		go func() {
			defer rwg.Done()
			last := int64(-1)
			for {
				select {
				case <-stop:
					return
				default:
				}
				c := e.S.Replica().GetRevisionCounter()
				if c < last {
					wbMu.Lock()
					wentBack = fmt.Sprintf("a reader saw the revision count go from %d back to %d while writes were running", last, c)
					wbMu.Unlock()
				}
				last = c
			}
		}()
	}
	for w := 0; w < cc.Writers; w++ {
		wg.Add(1)
		go func(w int) {
			defer wg.Done()
			for k := 0; k < cc.Per; k++ {
				l := int64(cc.Lens[(w+k)%len(cc.Lens)])
				var off int64
				if cc.Overlap {
					off = int64((w*7 + k*3) % (cc.Blocks*8 - int(l) + 1))
				} else {
					if l > per {
						l = per
					}
					off = int64(w)*per + int64(k*5)%(per-l+1)
				}
				if _, err := e.S.WriteAt(payload(w*1000+k, 1+w, off*Sec, l*Sec), off*Sec); err != nil {
					errs[w] = err
					return
				}
			}
		}(w)
	}
	wg.Wait()
	close(stop)
	rwg.Wait()
	if wentBack != "" {
		return fail("concurrent|counter-went-back", wentBack, "C10"), nil
	}
	for w, err := range errs {
		if err != nil {
			return fail("concurrent|write-error", fmt.Sprintf("writer %d: %v", w, err), "C01", "C10"), nil
		}
	}
	want := c0 + int64(cc.Writers*cc.Per)
	if cc.WO {
		want = c0
	}
	if got := e.S.Replica().GetRevisionCounter(); got != want {
		return fail("concurrent|counter|wo="+fmt.Sprint(cc.WO), fmt.Sprintf("revision counter %d after %d writers x %d writes from %d (mode WO=%v), expected %d", got, cc.Writers, cc.Per, c0, cc.WO, want), "C10"), nil
	}
	if cc.Reopen {
		mode := "RW"
		if cc.WO {
			mode = "WO"
		}
		e.M.Mode = mode
		if f := e.Reopen(true); f != nil {
			return f, nil
		}
		if got := e.S.Replica().GetRevisionCounter(); got != want {
			return fail("concurrent|counter-after-reopen", fmt.Sprintf("revision counter %d after reopen, expected %d", got, want), "C10"), nil
		}
	}
	return nil, nil
}

// TestC10Concurrent — N concurrent writers x k writes move the counter by exactly N*k in RW and not at all in WO.
func TestC10Concurrent(t *testing.T) {
	rec := NewRecorder("C10", "TestC10Concurrent")
	defer rec.Flush(t)
	run := func(cc ConcCase, fatalf func(string, ...interface{})) {
		f, err := runConcCase(cc)
		if err != nil {
			fatalf("HARNESS ERROR: %v", err)
			return
		}
		rec.Case(cc, cc.Writers >= 2, fmt.Sprintf("writers:%d", cc.Writers), map[bool]string{true: "mode:WO", false: "mode:RW"}[cc.WO], fmt.Sprintf("readers-of-the-count:%d", cc.Readers))
		if f != nil && f.Has("C10") {
			if rec.Fail("C10", "C10|"+f.Sig, f.Detail, cc) {
				return
			}
			fatalf("VIOLATION C10 %s: %s", f.Sig, f.Detail)
		}
	}
	var rp ConcCase
	if isReplay, err := LoadReplay(&rp); isReplay {
		if err != nil || rp.Writers == 0 {
			t.Skip("replay file is for another C10 test")
		}
		run(rp, t.Fatalf)
		return
	}
	checkBudget(t, func(rt *rapid.T) {
		cc := ConcCase{Blocks: rapid.IntRange(8, 32).Draw(rt, "blocks"), Writers: rapid.IntRange(2, 8).Draw(rt, "writers"),
			Per: rapid.IntRange(1, 40).Draw(rt, "per"), Overlap: rapid.Bool().Draw(rt, "overlap"), WO: rapid.IntRange(0, 3).Draw(rt, "wo") == 0,
			Lens: rapid.SliceOfN(rapid.IntRange(1, 8), 1, 5).Draw(rt, "lens"), Reopen: rapid.Bool().Draw(rt, "reopen")}
		if rapid.Bool().Draw(rt, "withreaders") {
			cc.Readers = rapid.IntRange(1, 4).Draw(rt, "readers")
		}
		run(cc, rt.Fatalf)
	})
}
