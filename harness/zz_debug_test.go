package harness

import (
	"fmt"
	"os"
	"testing"
)

func TestDebugReplayS(t *testing.T) {
	var p SProgram
	if err := loadCaseFile(os.Getenv("DBG_FILE"), &p); err != nil {
		t.Fatal(err)
	}
	x, f, err := RunSProgram(p)
	if err != nil {
		t.Fatal(err)
	}
	defer x.Destroy()
	fmt.Println("FAIL:", f)
	for _, l := range x.Trace {
		fmt.Println(l)
	}
	for _, n := range x.St.Nodes {
		ents, _ := os.ReadDir(n.Dir)
		fmt.Println("==", n.Name, n.Dir)
		for _, e := range ents {
			if len(e.Name()) > 4 && e.Name()[len(e.Name())-4:] == ".img" {
				al, _ := allocatedBlocks(n.Dir+"/"+e.Name(), x.Live.size())
				m, _ := readDiskMeta(n.Dir, e.Name())
				fmt.Printf("  %-60s parent=%-50s alloc=%v\n", e.Name(), m.Parent, al)
			}
		}
	}
}

func TestDebugClone(t *testing.T) {
	var c CloneCase
	if err := loadCaseFile(os.Getenv("DBG_FILE"), &c); err != nil {
		t.Fatal(err)
	}
	f, trace, labels, err := runCloneCase(c)
	fmt.Println("FAIL:", f, "ERR:", err, labels)
	for _, l := range trace {
		fmt.Println(l)
	}
}

func TestDebugReplaySKeep(t *testing.T) {
	var p SProgram
	if err := loadCaseFile(os.Getenv("DBG_FILE"), &p); err != nil {
		t.Fatal(err)
	}
	x, f, err := RunSProgram(p)
	if err != nil {
		t.Fatal(err)
	}
	fmt.Println("FAIL:", f)
	for _, l := range x.Trace {
		fmt.Println(l)
	}
	ents, _ := os.ReadDir(x.St.Base)
	for _, e := range ents {
		if len(e.Name()) > 10 && e.Name()[len(e.Name())-10:] == "-agent.log" {
			b, _ := os.ReadFile(x.St.Base + "/" + e.Name())
			fmt.Printf("==== %s\n%s\n", e.Name(), tailStr(string(b), 2500))
		}
	}
	if os.Getenv("DBG_NODESTROY") != "" {
		fmt.Println("BASE", x.St.Base)
		return
	}
	x.Destroy()
}

func TestDebugE(t *testing.T) {
	var c ECase
	if err := loadCaseFile(os.Getenv("DBG_FILE"), &c); err != nil {
		t.Fatal(err)
	}
	f, trace, labels, err := runECase(c)
	fmt.Println("FAIL:", f, "ERR:", err, labels)
	for _, l := range trace {
		fmt.Println(l)
	}
}
