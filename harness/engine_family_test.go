package harness

import (
	"testing"

	"pgregory.net/rapid"
)

// ---- C06 -------------------------------------------------------------------

var c06Cfg = GenCfg{
	MinBlocks: 4, MaxBlocks: 32, MinOps: 6, MaxOps: 50,
	W: map[string]int{"write": 46, "read": 3, "snap": 18, "remove": 6, "revert": 3, "reopen": 6,
		"reload": 2, "punch": 2, "unmap": 2, "lunmap": 2, "setcp": 2, "markrm": 2, "resize": 1, "delpunch": 2, "lunmapseq": 4},
	PunchStart: 80, MaxChainMin: 6, MaxChainMax: 10,
}

func c06Nontrivial(p Program, e *Engine) bool {
	f := features(p)
	return f.UserSnaps >= 1 && f.WriteAfterUserSnapWithPunch
}

// TestC06 — snapshots are immutable and revert restores exactly the image.
func TestC06(t *testing.T) {
	runEngineProperty(t, "C06", "TestC06", func(rt *rapid.T) Program { return GenProgram(rt, c06Cfg) },
		c06Nontrivial, func(e *Engine) { e.FollowInvalidCandidates = true })
}

// TestC06Deletion — the same oracle over deletion-heavy programs (marked
// snapshots on top of retained ones, checkpoints, cleaner-style removals of any
// candidate the product offers) with reclamation on in most cases.
var c06DelCfg = GenCfg{
	MinBlocks: 4, MaxBlocks: 24, MinOps: 8, MaxOps: 50,
	W:          map[string]int{"write": 30, "snap": 24, "remove": 16, "markrm": 9, "setcp": 7, "reopen": 4, "revert": 2, "punch": 1, "read": 2, "lunmap": 1},
	PunchStart: 70, MaxChainMin: 7, MaxChainMax: 12,
}

func TestC06Deletion(t *testing.T) {
	runEngineProperty(t, "C06", "TestC06Deletion", func(rt *rapid.T) Program { return GenProgram(rt, c06DelCfg) },
		func(p Program, e *Engine) bool {
			return e != nil && e.Labels["remove:ok"] > 0 && features(p).UserSnaps >= 1
		},
		func(e *Engine) { e.FollowInvalidCandidates = true })
}

// ---- C10 -------------------------------------------------------------------

var c10Cfg = GenCfg{
	MinBlocks: 4, MaxBlocks: 16, MinOps: 5, MaxOps: 60,
	W: map[string]int{"write": 50, "snap": 6, "remove": 3, "revert": 2, "reopen": 8,
		"reload": 3, "mode": 10, "setrev": 4, "setcp": 1, "markrm": 1, "resize": 1},
	PunchStart: 20, MaxChainMin: 6, MaxChainMax: 10, AllowWO: true,
}

func c10Nontrivial(p Program, e *Engine) bool {
	f := features(p)
	return f.Writes >= 2 && (f.ModeWO >= 1 || f.Reopens >= 1)
}

// TestC10 — the revision counter counts applied writes exactly.
func TestC10(t *testing.T) {
	runEngineProperty(t, "C10", "TestC10", func(rt *rapid.T) Program { return GenProgram(rt, c10Cfg) },
		c10Nontrivial, func(e *Engine) { e.CheckSnaps = false })
}

// ---- C11 -------------------------------------------------------------------

var c11Cfg = GenCfg{
	MinBlocks: 4, MaxBlocks: 24, MinOps: 8, MaxOps: 50,
	W: map[string]int{"write": 30, "snap": 24, "remove": 16, "markrm": 8, "setcp": 6, "rmdirect": 4,
		"reopen": 4, "revert": 2, "punch": 1, "mode": 2, "read": 2, "delpunch": 4, "reuseseq": 2},
	PunchStart: 40, MaxChainMin: 7, MaxChainMax: 12, AllowWO: true, DupNamePct: 20,
}

func c11Nontrivial(p Program, e *Engine) bool {
	return e != nil && e.Labels["remove:ok"] > 0
}

// TestC11 — deleting snapshots never changes live data or retained snapshots.
func TestC11(t *testing.T) {
	runEngineProperty(t, "C11", "TestC11", func(rt *rapid.T) Program { return GenProgram(rt, c11Cfg) },
		c11Nontrivial, nil)
}

// ---- C12 -------------------------------------------------------------------

var c12Cfg = GenCfg{
	MinBlocks: 4, MaxBlocks: 12, MinOps: 5, MaxOps: 45,
	W: map[string]int{"write": 14, "snap": 24, "remove": 8, "markrm": 8, "setcp": 6, "rmdirect": 8,
		"reopen": 8, "reload": 2, "revert": 8, "mode": 4, "resize": 6, "orphanseq": 3, "reuseseq": 3},
	PunchStart: 20, MaxChainMin: 4, MaxChainMax: 8, DupNamePct: 25, AllowWO: true,
}

func c12Nontrivial(p Program, e *Engine) bool {
	if e == nil {
		return false
	}
	refused := e.Labels["snap:duplicate"] + e.Labels["snap:toolong"] + e.Labels["op:rmdirect"] + e.Labels["resize:shrink"]
	return refused > 0 && features(p).Snaps >= 2
}

// TestC12 — the chain stays a well-formed path and survives reopen unchanged.
func TestC12(t *testing.T) {
	runEngineProperty(t, "C12", "TestC12", func(rt *rapid.T) Program { return GenProgram(rt, c12Cfg) },
		c12Nontrivial, nil)
}

// ---- C16 -------------------------------------------------------------------

var c16Cfg = GenCfg{
	MinBlocks: 4, MaxBlocks: 24, MinOps: 5, MaxOps: 45,
	W: map[string]int{"write": 34, "read": 6, "snap": 12, "resize": 18, "reopen": 8, "reload": 2,
		"remove": 4, "revert": 3, "setcp": 2, "punch": 1, "orphanseq": 3},
	PunchStart: 30, MaxChainMin: 6, MaxChainMax: 10,
}

func c16Nontrivial(p Program, e *Engine) bool {
	if e == nil {
		return false
	}
	f := features(p)
	return e.Labels["resize:grow"] > 0 && f.Writes >= 1 && f.Snaps >= 1
}

// TestC16 — growing a volume keeps all data; shrinking is refused.
func TestC16(t *testing.T) {
	runEngineProperty(t, "C16", "TestC16", func(rt *rapid.T) Program { return GenProgram(rt, c16Cfg) },
		c16Nontrivial, nil)
}
