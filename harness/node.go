package harness

import (
	"fmt"
	"hash/fnv"
	"net"
	"net/http"
	"os"
	"os/exec"
	"path/filepath"
	"runtime/debug"
	"strings"
	"sync"
	"syscall"
	"time"

	"github.com/openebs/jiva/replica"
	replicarest "github.com/openebs/jiva/replica/rest"
	"github.com/openebs/jiva/rpc"
)

// Outcome of one data-path call on one node.
type Outcome string

const (
	OK    Outcome = "ok"
	ERR   Outcome = "err"   // error reply, not applied
	STALL Outcome = "stall" // no reply until well past the client's deadline, not applied
	DROP  Outcome = "drop"  // connection closed without a reply, not applied
	// SLOW: the call is applied, but only after 1.5 r/w deadlines: the controller has
	// given up on it by then; a client that sent the request a second time gets it
	// applied twice
	SLOW Outcome = "slow"
	// DROPWAIT: like DROP, and the controller's r/w deadline is long enough (4 s) for
	// its rpc client to get to the in-flight request itself: the client waits 2 s after
	// a transport error before it ends the requests that were in flight
	DROPWAIT Outcome = "dropwait"
	// DISKERR: the replica's own write to its head file fails (the descriptor is
	// swapped for a read-only one for the duration of the call): the failure
	// happens inside Replica.WriteAt, below everything the replica does around a write
	DISKERR Outcome = "diskerr"
)

// DPCall is one entry of a node's data-path log.
type DPCall struct {
	Kind    string
	Off     int64
	Len     int64
	Sum     uint64
	Applied bool
	Lied    bool   // the call ran against a failing disk (DISKERR) and the replica reported success
	Err     string // the replica's own error (no fault injected on this call)
	Outcome Outcome
	When    time.Time
}

// Node is an in-process replica node: the real replica.Server, the real
// replica REST router behind a fault middleware on ip:9502 and the real
// rpc.Server over a fault-injecting DataProcessor on ip:9503.
type Node struct {
	mu      sync.Mutex
	Name    string
	IP      string
	Addr    string // tcp://ip:9502
	Dir     string
	S       *replica.Server
	restLn  net.Listener
	rpcLn   net.Listener
	httpSrv *http.Server
	Fast    bool

	// faults
	next      map[string][]Outcome // per kind: outcomes for upcoming calls (FIFO)
	restFail  map[string]int       // action -> number of upcoming requests to fail
	restHold  map[string]*restHold // action -> hold the next request of that action (see HoldRest)
	pingHang  time.Duration        // > 0: the REST /ping is answered only after this long
	restDrop  map[string]int       // request pattern ("METHOD path?action" substring) -> number of upcoming product-originated requests whose connection is closed without an answer
	pingFail  bool
	StallFor  time.Duration
	SlowFor   time.Duration
	Log       []DPCall
	RestLog   []string
	conns     []net.Conn
	curConn   net.Conn
	stopped   bool
	connGen   int
	agent     *exec.Cmd // sync-agent child (system tier)
	Closes    int       // times the accept loop closed the replica after a connection ended
	LastSlow  time.Time // last stall / drop / node-side disconnect
	handleEnd chan struct{}
}

// restWrap, when set, wraps every node's REST router (C14 panic recorder).
var restWrap func(name string, h http.Handler) http.Handler

func sum64(b []byte) uint64 {
	h := fnv.New64a()
	h.Write(b)
	return h.Sum64()
}

// NewNode creates the directory, the replica (size bytes) and starts the listeners.
func NewNode(name, ip, dir string, size int64, fast bool) (*Node, error) {
	n := &Node{Name: name, IP: ip, Addr: "tcp://" + ip + ":9502", Dir: dir, Fast: fast,
		next: map[string][]Outcome{}, restFail: map[string]int{}, StallFor: 1500 * time.Millisecond, SlowFor: 450 * time.Millisecond}
	if err := os.MkdirAll(dir, 0700); err != nil {
		return nil, err
	}
	n.S = replica.NewServer(ip+":9502", dir, 512, "")
	if size > 0 {
		if err := n.S.Create(size); err != nil {
			return nil, err
		}
		// persist CloneStatus=NA once, as startReplica does after the first open
		if err := n.S.Open(); err != nil {
			return nil, err
		}
		n.fixDrainer()
		if err := n.S.Replica().SetCloneStatus("NA"); err != nil {
			return nil, err
		}
		if err := n.S.Close(); err != nil {
			return nil, err
		}
	}
	if err := n.listen(); err != nil {
		return nil, err
	}
	return n, nil
}

func (n *Node) fixDrainer() {
	if n.Fast {
		if r := n.S.Replica(); r != nil {
			r.VerifSetHoleDrainer(replica.VerifFastHoleDrainer)
		}
	}
}

func (n *Node) listen() error {
	var err error
	n.restLn, err = net.Listen("tcp", n.IP+":9502")
	if err != nil {
		return err
	}
	n.rpcLn, err = net.Listen("tcp", n.IP+":9503")
	if err != nil {
		n.restLn.Close()
		return err
	}
	router := http.Handler(replicarest.NewRouter(replicarest.NewServer(n.S)))
	if restWrap != nil {
		router = restWrap(n.Name, router)
	}
	n.httpSrv = &http.Server{Handler: http.HandlerFunc(func(w http.ResponseWriter, r *http.Request) {
		action := r.URL.Query().Get("action")
		n.mu.Lock()
		n.RestLog = append(n.RestLog, r.Method+" "+r.URL.Path+"?"+action)
		failIt := false
		if action != "" && n.restFail[action] > 0 {
			n.restFail[action]--
			failIt = true
		}
		if r.URL.Path == "/ping" && n.pingFail {
			failIt = true
		}
		pingHang := r.URL.Path == "/ping" && n.pingHang > 0
		dropIt := false
		if r.Header.Get("X-Verif-Origin") == "" {
			key := r.Method + " " + r.URL.Path + "?" + action
			for pat, cnt := range n.restDrop {
				if cnt > 0 && strings.Contains(key, pat) {
					n.restDrop[pat]--
					dropIt = true
					break
				}
			}
		}
		if pingHang {
			// the replica is there but gives no answer (frozen process, black-holed network)
			d := n.pingHang
			n.mu.Unlock()
			time.Sleep(d)
			http.Error(w, "too late", http.StatusGatewayTimeout)
			return
		}
		if dropIt {
			n.mu.Unlock()
			// no HTTP answer at all: the replica "died" between two requests
			if hj, ok := w.(http.Hijacker); ok {
				if c, _, err := hj.Hijack(); err == nil {
					c.Close()
					return
				}
			}
			panic(http.ErrAbortHandler)
		}
		var hold *restHold
		if action != "" && n.restHold != nil && n.restHold[action] != nil {
			hold = n.restHold[action]
			delete(n.restHold, action)
		} else if k := r.Method + " " + r.URL.Path; action == "" && n.restHold != nil && n.restHold[k] != nil && r.Header.Get("X-Verif-Origin") == "" {
			// a hold keyed "<METHOD> <path>" for requests without an action (the product's GETs)
			hold = n.restHold[k]
			delete(n.restHold, k)
		}
		n.mu.Unlock()
		if hold != nil {
			close(hold.Arrived)
			time.Sleep(hold.D)
		}
		if failIt {
			http.Error(w, "injected failure of "+action, http.StatusInternalServerError)
			return
		}
		wasOpen := func() (o bool) {
			defer func() { recover() }()
			return n.S.Replica() != nil
		}()
		router.ServeHTTP(w, r)
		if r.Method == "POST" {
			n.fixDrainer()
			if action == "open" && !wasOpen {
				// the replica process's main goroutine marks a freshly opened replica that is
				// not a clone "NA" (app/replica.go, after the first open of the process; in the
				// product every open is the first one of a new process)
				func() {
					defer func() { recover() }()
					if rp := n.S.Replica(); rp != nil && rp.GetCloneStatus() == "" {
						rp.SetCloneStatus("NA")
					}
				}()
			}
		}
	})}
	go n.httpSrv.Serve(n.restLn)
	go n.acceptLoop(n.rpcLn)
	return nil
}

// acceptLoop mirrors replica/rpc.Server.ListenAndServe: one connection at a
// time; when the connection ends the replica is closed (the product process
// would exit here and be restarted).
func (n *Node) acceptLoop(ln net.Listener) {
	for {
		conn, err := ln.Accept()
		if err != nil {
			return
		}
		n.mu.Lock()
		n.conns = append(n.conns, conn)
		n.curConn = conn
		n.connGen++
		end := make(chan struct{})
		n.handleEnd = end
		n.mu.Unlock()
		srv := rpc.NewServer(conn, &faultDP{n: n, conn: conn})
		_ = srv.Handle()
		conn.Close()
		n.mu.Lock()
		n.curConn = nil
		stopped := n.stopped
		n.mu.Unlock()
		if !stopped {
			// The product's replica process exits at this point, and whatever was
			// waiting in its listen queue goes with it. Here the listener lives on: a
			// connection that was queued behind this one (the loser of two simultaneous
			// attach attempts, long since given up by its dialler) must not be served
			// later as if it were new - it would end at once and close a replica that
			// has been opened again in the meantime. The queue is emptied while the
			// replica is still open: nobody can be attaching to it legitimately now (an
			// attach needs a closed replica), so whatever is queued is stale.
			if tl, ok := ln.(*net.TCPListener); ok {
				for {
					tl.SetDeadline(time.Now().Add(2 * time.Millisecond))
					stale, err := tl.Accept()
					if err != nil {
						break
					}
					stale.Close()
				}
				tl.SetDeadline(time.Time{})
			}
			n.fixDrainer()
			n.S.Close()
			n.mu.Lock()
			n.Closes++
			n.mu.Unlock()
		}
		close(end)
	}
}

// WaitDisconnected waits until the current data connection (if any) has been
// torn down on the node side and the replica closed itself.
func (n *Node) WaitDisconnected(d time.Duration) bool {
	n.mu.Lock()
	end := n.handleEnd
	n.mu.Unlock()
	if end == nil {
		return true
	}
	select {
	case <-end:
		return true
	case <-time.After(d):
		return false
	}
}

// DropConn closes the data connection from the node side (as a dying replica
// process would) and waits for the node to close its replica.
func (n *Node) DropConn() {
	n.mu.Lock()
	c := n.curConn
	n.mu.Unlock()
	if c != nil {
		n.markSlow()
		c.Close()
	}
	n.WaitDisconnected(10 * time.Second)
}

// StartAgent starts the repository's own sync agent for this node
// (jiva sync-agent, cwd = the replica directory) on ip:9504.
func (n *Node) StartAgent(jivaBin string, portLo, portHi int) error {
	if n.agent != nil {
		return nil
	}
	cmd := exec.Command(jivaBin, "sync-agent", "--listen", n.IP+":9504", "--listen-port-range", fmt.Sprintf("%d-%d", portLo, portHi))
	cmd.Dir = n.Dir
	cmd.SysProcAttr = &syscall.SysProcAttr{Pdeathsig: syscall.SIGKILL, Setpgid: true}
	cmd.Stdout = nil
	cmd.Stderr = nil
	if lf, err := os.OpenFile(filepath.Join(filepath.Dir(n.Dir), n.Name+"-agent.log"), os.O_CREATE|os.O_APPEND|os.O_WRONLY, 0644); err == nil {
		cmd.Stdout, cmd.Stderr = lf, lf
		defer lf.Close()
	}
	if err := cmd.Start(); err != nil {
		return err
	}
	n.agent = cmd
	go cmd.Wait()
	// wait until it listens
	for i := 0; i < 200; i++ {
		c, err := net.DialTimeout("tcp", n.IP+":9504", 100*time.Millisecond)
		if err == nil {
			c.Close()
			return nil
		}
		time.Sleep(10 * time.Millisecond)
	}
	return fmt.Errorf("sync agent of %s does not listen", n.Name)
}

func (n *Node) StopAgent() {
	if n.agent != nil && n.agent.Process != nil {
		syscall.Kill(-n.agent.Process.Pid, syscall.SIGKILL)
	}
	n.agent = nil
}

// Stop shuts the listeners down and abandons the replica without closing it
// (kill -9 at a quiescent point). The directory stays.
func (n *Node) Stop() {
	n.mu.Lock()
	n.stopped = true
	conns := n.conns
	n.conns = nil
	n.mu.Unlock()
	if n.restLn != nil {
		n.httpSrv.Close()
		n.restLn.Close()
	}
	if n.rpcLn != nil {
		n.rpcLn.Close()
	}
	for _, c := range conns {
		c.Close()
	}
}

// Shutdown stops the node and closes the replica cleanly.
func (n *Node) Shutdown() {
	n.StopAgent()
	n.Stop()
	n.mu.Lock()
	end := n.handleEnd
	n.mu.Unlock()
	if end != nil {
		select {
		case <-end:
		case <-time.After(5 * time.Second):
		}
	}
	if n.S.Replica() != nil {
		n.fixDrainer()
		done := make(chan struct{})
		go func() { n.S.Close(); close(done) }()
		select {
		case <-done:
		case <-time.After(10 * time.Second):
		}
	}
}

// Restart = a new process on the same directory: new replica.Server, fresh listeners.
func (n *Node) Restart() error {
	n.Shutdown()
	n.mu.Lock()
	n.stopped = false
	n.next = map[string][]Outcome{}
	n.restFail = map[string]int{}
	n.pingFail = false
	n.mu.Unlock()
	n.S = replica.NewServer(n.IP+":9502", n.Dir, 512, "")
	var err error
	for i := 0; i < 50; i++ {
		if err = n.listen(); err == nil {
			return nil
		}
		time.Sleep(20 * time.Millisecond)
	}
	return err
}

func (n *Node) markSlow() {
	n.mu.Lock()
	n.LastSlow = time.Now()
	n.mu.Unlock()
}

func (n *Node) CloseCount() int {
	n.mu.Lock()
	defer n.mu.Unlock()
	return n.Closes
}

// WaitQuiesced waits until the controller-side machinery of this node's
// previous incarnation (poisoned rpc client, monitor goroutines keyed by the
// address) has finished: 2 s poison sleep + margin after a slow failure.
func (n *Node) WaitQuiesced() {
	n.mu.Lock()
	ls := n.LastSlow
	n.mu.Unlock()
	if ls.IsZero() {
		return
	}
	if d := 3200*time.Millisecond - time.Since(ls); d > 0 {
		time.Sleep(d)
	}
}

// Recreate replaces the node by a brand-new empty replica on the same address
// (a replaced replica: new volume, same pod address). The node must be closed.
func (n *Node) Recreate(size int64) error {
	n.Shutdown()
	os.RemoveAll(n.Dir)
	if err := os.MkdirAll(n.Dir, 0700); err != nil {
		return err
	}
	n.mu.Lock()
	n.stopped = false
	n.next = map[string][]Outcome{}
	n.restFail = map[string]int{}
	n.pingFail = false
	n.handleEnd = nil
	n.Log = nil
	n.mu.Unlock()
	n.S = replica.NewServer(n.IP+":9502", n.Dir, 512, "")
	if err := n.S.Create(size); err != nil {
		return err
	}
	if err := n.S.Open(); err != nil {
		return err
	}
	n.fixDrainer()
	if err := n.S.Replica().SetCloneStatus("NA"); err != nil {
		return err
	}
	if err := n.S.Close(); err != nil {
		return err
	}
	var err error
	for i := 0; i < 50; i++ {
		if err = n.listen(); err == nil {
			return nil
		}
		time.Sleep(20 * time.Millisecond)
	}
	return err
}

// Restart2Abandon = kill -9 at a quiescent point and restart: the listeners
// go away, the open replica object is abandoned without Close (Dirty /
// Rebuilding stay persisted), a new server object serves the directory.
func (n *Node) Restart2Abandon() error {
	n.Stop()
	n.mu.Lock()
	end := n.handleEnd
	n.mu.Unlock()
	if end != nil {
		select {
		case <-end:
		case <-time.After(5 * time.Second):
		}
	}
	n.mu.Lock()
	n.stopped = false
	n.next = map[string][]Outcome{}
	n.restFail = map[string]int{}
	n.pingFail = false
	n.handleEnd = nil
	n.mu.Unlock()
	n.S = replica.NewServer(n.IP+":9502", n.Dir, 512, "")
	var err error
	for i := 0; i < 50; i++ {
		if err = n.listen(); err == nil {
			return nil
		}
		time.Sleep(20 * time.Millisecond)
	}
	return err
}

func (n *Node) SetNext(kind string, o ...Outcome) {
	n.mu.Lock()
	n.next[kind] = append(n.next[kind], o...)
	n.mu.Unlock()
}

func (n *Node) ClearFaults() {
	n.mu.Lock()
	n.next = map[string][]Outcome{}
	n.restFail = map[string]int{}
	n.pingFail = false
	n.mu.Unlock()
}

func (n *Node) FailRest(action string, times int) {
	n.mu.Lock()
	n.restFail[action] += times
	n.mu.Unlock()
}

// restHold: the next request for an action is announced on Arrived and then
// kept waiting for D before it is served (a rendezvous for request races: the
// caller of that action - the controller, holding its lock - is parked there).
type restHold struct {
	Arrived chan struct{}
	D       time.Duration
}

func (n *Node) HoldRest(action string, d time.Duration) *restHold {
	h := &restHold{Arrived: make(chan struct{}), D: d}
	n.mu.Lock()
	if n.restHold == nil {
		n.restHold = map[string]*restHold{}
	}
	n.restHold[action] = h
	n.mu.Unlock()
	return h
}

// DropRest: the next `times` requests that match pat and come from the product
// (not from the harness, which marks its own requests with X-Verif-Origin) get no
// HTTP answer: the connection is closed.
func (n *Node) DropRest(pat string, times int) {
	n.mu.Lock()
	if n.restDrop == nil {
		n.restDrop = map[string]int{}
	}
	n.restDrop[pat] += times
	n.mu.Unlock()
}

func (n *Node) SetPingHang(d time.Duration) {
	n.mu.Lock()
	n.pingHang = d
	n.mu.Unlock()
}

func (n *Node) SetPingFail(b bool) {
	n.mu.Lock()
	n.pingFail = b
	n.mu.Unlock()
}

func (n *Node) take(kind string) Outcome {
	n.mu.Lock()
	defer n.mu.Unlock()
	q := n.next[kind]
	if len(q) == 0 {
		return OK
	}
	o := q[0]
	n.next[kind] = q[1:]
	return o
}

func (n *Node) logCall(c DPCall) {
	c.When = time.Now()
	n.mu.Lock()
	n.Log = append(n.Log, c)
	n.mu.Unlock()
}

// LogLen returns the number of data-path calls (of the given kinds) that reached the node.
func (n *Node) LogLen(kinds ...string) int {
	n.mu.Lock()
	defer n.mu.Unlock()
	if len(kinds) == 0 {
		return len(n.Log)
	}
	c := 0
	for _, e := range n.Log {
		for _, k := range kinds {
			if e.Kind == k {
				c++
			}
		}
	}
	return c
}

func (n *Node) LogCopy() []DPCall {
	n.mu.Lock()
	defer n.mu.Unlock()
	return append([]DPCall{}, n.Log...)
}

func (n *Node) RestCount(substr string) int {
	n.mu.Lock()
	defer n.mu.Unlock()
	c := 0
	for _, e := range n.RestLog {
		if strings.Contains(e, substr) {
			c++
		}
	}
	return c
}

// faultDP is the DataProcessor handed to the real rpc.Server.
type faultDP struct {
	n    *Node
	conn net.Conn
}

func (d *faultDP) fault(kind string, o Outcome) error {
	switch o {
	case ERR, DISKERR:
		return fmt.Errorf("injected %s error on %s", kind, d.n.Name)
	case STALL:
		d.n.markSlow()
		time.Sleep(d.n.StallFor)
		return fmt.Errorf("injected %s stall on %s", kind, d.n.Name)
	case SLOW:
		d.n.markSlow()
		time.Sleep(d.n.SlowFor)
		return nil
	case DROP, DROPWAIT:
		d.n.markSlow()
		d.conn.Close()
		return fmt.Errorf("injected %s connection drop on %s", kind, d.n.Name)
	}
	return nil
}

// begin logs the call on arrival (so that a stalled call is visible in the
// log while it stalls) and returns its index for the completion update.
func (d *faultDP) begin(c DPCall) int {
	c.When = time.Now()
	d.n.mu.Lock()
	d.n.Log = append(d.n.Log, c)
	i := len(d.n.Log) - 1
	d.n.mu.Unlock()
	return i
}

// withBrokenHead runs f while the head file's descriptor is replaced by a
// read-only one on /dev/null: pwrite fails with EBADF, fsync with EINVAL.
// Returns false if the swap could not be set up (f was not run).
func (d *faultDP) withBrokenHead(f func()) bool {
	r := func() (r *replica.Replica) {
		defer func() { recover() }()
		return d.n.S.Replica()
	}()
	if r == nil {
		return false
	}
	fd := int(r.VerifHeadFd())
	if fd <= 0 {
		return false
	}
	saved, e1 := syscall.Dup(fd)
	if e1 != nil {
		return false
	}
	defer syscall.Close(saved)
	ro, e2 := syscall.Open("/dev/null", syscall.O_RDONLY, 0)
	if e2 != nil {
		return false
	}
	defer syscall.Close(ro)
	if syscall.Dup3(ro, fd, 0) != nil {
		return false
	}
	defer syscall.Dup3(saved, fd, 0)
	f()
	return true
}

// doneNotApplied: the call ran against a broken disk; if the replica nevertheless
// reported success the log says so.
func (d *faultDP) doneNotApplied(i int, err error) {
	d.n.mu.Lock()
	d.n.Log[i].Applied = false
	if err != nil {
		d.n.Log[i].Err = err.Error()
	} else {
		d.n.Log[i].Err = "the replica reported success although its disk " + d.n.Log[i].Kind + " failed"
		d.n.Log[i].Lied = true
	}
	d.n.mu.Unlock()
}

func (d *faultDP) done(i int, err error) {
	d.n.mu.Lock()
	d.n.Log[i].Applied = err == nil
	if err != nil {
		d.n.Log[i].Err = err.Error()
	}
	d.n.mu.Unlock()
}

// dpPanics collects panics of the replica's data path: in the product the
// replica process would be gone; here the case ends with that as its finding.
var (
	dpPanicMu sync.Mutex
	dpPanics  []string
)

func takeDPPanic() string {
	dpPanicMu.Lock()
	defer dpPanicMu.Unlock()
	if len(dpPanics) == 0 {
		return ""
	}
	m := dpPanics[0]
	dpPanics = nil
	return m
}

// died turns a panic below a data-path call into "the replica process died":
// recorded for the executor, the connection is torn down, the call fails.
func (d *faultDP) died(kind string, err *error) {
	if r := recover(); r != nil {
		dpPanicMu.Lock()
		dpPanics = append(dpPanics, fmt.Sprintf("%s on %s panicked: %v\n%s", kind, d.n.Name, r, headStr(string(debug.Stack()), 3000)))
		dpPanicMu.Unlock()
		d.conn.Close()
		*err = fmt.Errorf("replica %s died in %s: %v", d.n.Name, kind, r)
	}
}

func (d *faultDP) WriteAt(p []byte, off int64) (c int, err error) {
	defer d.died("write", &err)
	o := d.n.take("write")
	i := d.begin(DPCall{Kind: "write", Off: off, Len: int64(len(p)), Sum: sum64(p), Outcome: o})
	if o == DISKERR {
		// the replica's own disk write fails; whatever the replica answers is passed
		// on, but the call is logged as not applied (it cannot have been)
		if d.withBrokenHead(func() { c, err = d.n.S.WriteAt(p, off) }) {
			d.doneNotApplied(i, err)
			return c, err
		}
		o = ERR
	}
	if err := d.fault("write", o); err != nil {
		return 0, err
	}
	c, err = d.n.S.WriteAt(p, off)
	d.done(i, err)
	return c, err
}

func (d *faultDP) ReadAt(p []byte, off int64) (c int, err error) {
	defer d.died("read", &err)
	o := d.n.take("read")
	i := d.begin(DPCall{Kind: "read", Off: off, Len: int64(len(p)), Outcome: o})
	if err := d.fault("read", o); err != nil {
		return 0, err
	}
	c, err = d.n.S.ReadAt(p, off)
	d.done(i, err)
	return c, err
}

func (d *faultDP) Sync() (c int, err error) {
	defer d.died("sync", &err)
	o := d.n.take("sync")
	i := d.begin(DPCall{Kind: "sync", Outcome: o})
	if o == DISKERR {
		// fsync of the head fails
		if d.withBrokenHead(func() { c, err = d.n.S.Sync() }) {
			d.doneNotApplied(i, err)
			return c, err
		}
		o = ERR
	}
	if err := d.fault("sync", o); err != nil {
		return -1, err
	}
	c, err = d.n.S.Sync()
	d.done(i, err)
	return c, err
}

func (d *faultDP) Unmap(off, length int64) (c int, err error) {
	defer d.died("unmap", &err)
	o := d.n.take("unmap")
	i := d.begin(DPCall{Kind: "unmap", Off: off, Len: length, Outcome: o})
	if err := d.fault("unmap", o); err != nil {
		return -1, err
	}
	c, err = d.n.S.Unmap(off, length)
	d.done(i, err)
	return c, err
}

func (d *faultDP) PingResponse() error {
	o := d.n.take("ping")
	if err := d.fault("ping", o); err != nil {
		return err
	}
	return d.n.S.PingResponse()
}

func (d *faultDP) Close() error { return nil }

// nodeDir returns a fresh directory for node i of a case.
func nodeDir(base string, i int) string {
	return filepath.Join(base, fmt.Sprintf("n%d", i))
}
