package harness

import (
	"bytes"
	"testing"
	"time"
)

func TestStackSmoke(t *testing.T) {
	SetStackTimeouts(300*time.Millisecond, 2*time.Second, 200*time.Millisecond)
	t0 := time.Now()
	st, err := NewStack(3, 3, 16*Blk)
	if err != nil {
		t.Fatal(err)
	}
	defer st.Destroy()
	t.Logf("newstack %v", time.Since(t0))
	if err := st.BringUp(3); err != nil {
		t.Fatal(err)
	}
	t.Logf("bringup %v state=%+v", time.Since(t0), st.C.VerifState())
	data := payload(1, 5, 0, 8192)
	n, err := st.C.WriteAt(data, 0)
	t.Logf("write n=%d err=%v", n, err)
	buf := make([]byte, 8192)
	for i := 0; i < 3; i++ {
		n, err = st.C.ReadAt(buf, 0)
		if err != nil || !bytes.Equal(buf, data) {
			t.Fatalf("read %d %v", n, err)
		}
	}
	for _, nd := range st.Nodes {
		t.Logf("%s log=%d", nd.Name, nd.LogLen())
	}
	// fail n1 on write
	st.Nodes[1].SetNext("write", ERR)
	t1 := time.Now()
	n, err = st.C.WriteAt(data, 4096)
	t.Logf("write with n1 err: n=%d err=%v took %v state=%+v", n, err, time.Since(t1), st.C.VerifState().Replicas)
	st.Nodes[2].SetNext("write", STALL)
	t1 = time.Now()
	n, err = st.C.WriteAt(data, 4096)
	t.Logf("write with n2 stall: n=%d err=%v took %v state=%+v ro=%v", n, err, time.Since(t1), st.C.VerifState().Replicas, st.C.VerifState().ReadOnly)
	t1 = time.Now()
	ok := st.Nodes[1].WaitDisconnected(10 * time.Second)
	t.Logf("n1 disconnected=%v after %v", ok, time.Since(t1))
	t.Logf("total %v", time.Since(t0))
}
