module verifharness

go 1.19
