package harness

import "testing"

func TestC07System(t *testing.T) { t.Skip("not built yet") }
