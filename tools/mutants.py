#!/usr/bin/env python3
"""Sensitivity sweep: apply each deliberate breakage to a scratch copy of /repo
(never to /repo itself), run the property's quick check with JIVA_SRC pointing
at the copy, report whether it was caught. Usage: tools/mutants.py [name-substr ...]"""
import json, os, shutil, subprocess, sys, time
from concurrent.futures import ThreadPoolExecutor

VERIF = os.path.dirname(os.path.dirname(os.path.abspath(__file__)))
ROOT = "/root/verif-scratch/mut"
sys.path.insert(0, os.path.join(VERIF, "tools"))
from mutant_list import MUTANTS

def run(m):
    name = m["name"]
    d = os.path.join(ROOT, name)
    shutil.rmtree(d, ignore_errors=True)
    os.makedirs(ROOT, exist_ok=True)
    subprocess.run(["rsync", "-a", "--exclude", ".git", "/repo/", d + "/"], check=True)
    p = os.path.join(d, m["file"])
    s = open(p).read()
    if s.count(m["old"]) < 1:
        shutil.rmtree(d, ignore_errors=True)
        return name, "PATTERN-NOT-FOUND", 0
    open(p, "w").write(s.replace(m["old"], m["new"], 1))
    env = dict(os.environ)
    env.update({"JIVA_SRC": d, "VERIF_EVIDENCE_DIR": os.path.join(d, ".ev"), "VERIF_REPLAYS_DIR": os.path.join(d, ".rp"),
                "VERIF_LASTLOGS_DIR": os.path.join(d, ".ll"), "VERIF_SCRATCH": os.path.join(ROOT, "scratch-" + name)})
    t0 = time.time()
    r = subprocess.run(["./check", m["pid"], m.get("tier", "quick")], cwd=VERIF, env=env, stdout=subprocess.PIPE, stderr=subprocess.STDOUT, text=True)
    sig = [l.strip() for l in r.stdout.splitlines() if l.strip().startswith("signature:")]
    res = {0: "MISSED", 1: "caught", 2: "BROKEN"}.get(r.returncode, str(r.returncode))
    if r.returncode == 0 and m.get("expect"):
        res = "not-caught (expected: %s)" % m["expect"]
    if r.returncode == 2:
        open(os.path.join(ROOT, name + ".log"), "w").write(r.stdout)
    shutil.rmtree(d, ignore_errors=True)
    shutil.rmtree(os.path.join(ROOT, "scratch-" + name), ignore_errors=True)
    # drop the per-copy build dir
    import hashlib
    key = hashlib.sha1(os.path.abspath(d).encode()).hexdigest()[:10]
    shutil.rmtree(os.path.join(VERIF, ".build", key), ignore_errors=True)
    return name, res + (" " + sig[0] if sig else ""), time.time() - t0

if __name__ == "__main__":
    sel = sys.argv[1:]
    ms = [m for m in MUTANTS if not sel or any(x in m["name"] or x == m["pid"] for x in sel)]
    par = int(os.environ.get("MUT_PAR", "2"))
    with ThreadPoolExecutor(par) as ex:
        for name, res, dt in ex.map(run, ms):
            print("%-44s %-8s %5.0fs" % (name, res, dt), flush=True)
