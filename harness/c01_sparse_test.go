package harness

import (
	"bytes"
	"fmt"
	"os"
	"path/filepath"
	"sort"
	"strings"
	"testing"

	"github.com/openebs/jiva/replica"
	"github.com/openebs/jiva/types"
	"pgregory.net/rapid"
)

// Large and fragmented volumes. The engine programs of TestC01 work on volumes
// of 4-64 blocks with a byte-array model: offsets never leave the first 256 KiB
// and no chain file ever has more extents than one FIEMAP call returns (1024).
// Here the volume is 1-8 GiB (sparse files, a sparse model: block -> content)
// with writes near the GiB, 2^31 and 2^32 byte marks and at the very end, and
// "comb" writes that give a file thousands of separate extents, so that
// preload's extent walk has to continue over several FIEMAP calls.

type SpOp struct {
	K    string `json:"k"`             // write | comb | snap | reopen | reload | punch
	Pos  int64  `json:"pos,omitempty"` // write: byte offset class resolved by the generator (sector aligned); comb: first block
	Len  int64  `json:"len,omitempty"` // write: sectors; comb: number of blocks in the range
	Step int64  `json:"step,omitempty"`
	Seed int    `json:"seed,omitempty"`
	On   bool   `json:"on,omitempty"` // reopen/reload: preload; snap: user; punch: on
}

type SparseCase struct {
	SizeMiB int64  `json:"sizemib"`
	Ops     []SpOp `json:"ops"`
}

type sparseModel struct {
	blocks map[int64][]byte // block number -> 4 KiB content (absent = zeros)
}

func (m *sparseModel) write(off int64, data []byte) {
	for len(data) > 0 {
		b := off / Blk
		in := off % Blk
		n := Blk - in
		if n > int64(len(data)) {
			n = int64(len(data))
		}
		cur := m.blocks[b]
		if cur == nil {
			cur = make([]byte, Blk)
			m.blocks[b] = cur
		}
		copy(cur[in:], data[:n])
		data = data[n:]
		off += n
	}
}

func (m *sparseModel) block(b int64) []byte {
	if c := m.blocks[b]; c != nil {
		return c
	}
	return make([]byte, Blk)
}

func runSparseCase(sc SparseCase) (*Fail, []string, map[string]int, error) {
	startHoleCreator()
	clearFatal()
	labels := map[string]int{}
	types.MaxChainLength = 0
	types.ShouldPunchHoles = false
	base := newCaseDir("sparse")
	defer os.RemoveAll(base)
	dir := filepath.Join(base, "replica")
	os.MkdirAll(dir, 0700)
	size := sc.SizeMiB << 20
	s := replica.NewServer("127.0.0.1:9502", dir, 512, "")
	if err := s.Create(size); err != nil {
		return nil, nil, nil, err
	}
	open := func(preload bool) error {
		s.SetPreload(preload)
		if err := s.Open(); err != nil {
			return err
		}
		s.Replica().VerifSetHoleDrainer(replica.VerifFastHoleDrainer)
		return s.SetReplicaMode("RW")
	}
	if err := open(true); err != nil {
		return nil, nil, nil, err
	}
	defer func() {
		if s.Replica() != nil {
			s.Replica().VerifSetHoleDrainer(replica.VerifFastHoleDrainer)
			s.Close()
		}
	}()
	m := &sparseModel{blocks: map[int64][]byte{}}
	var trace []string
	tr := func(f string, a ...interface{}) { trace = append(trace, fmt.Sprintf(f, a...)) }
	nsnap := 0
	// verify: every block ever written (or a sample of them) and its neighbours read back
	verify := func(after string, all bool) *Fail {
		var bs []int64
		for b := range m.blocks {
			bs = append(bs, b)
		}
		sort.Slice(bs, func(i, j int) bool { return bs[i] < bs[j] })
		stride := 1
		if !all && len(bs) > 96 {
			stride = len(bs) / 96
		}
		buf := make([]byte, Blk)
		seen := map[int64]bool{}
		for k := 0; k < len(bs); k += stride {
			for _, b := range []int64{bs[k] - 1, bs[k], bs[k] + 1} {
				if b < 0 || b >= size/Blk || seen[b] {
					continue
				}
				seen[b] = true
				if _, err := s.ReadAt(buf, b*Blk); err != nil {
					return fail("sparse|read-error|after="+after, fmt.Sprintf("read of block %d (byte %d) of a %d MiB volume after %s: %v", b, b*Blk, sc.SizeMiB, after, err), "C01")
				}
				if !bytes.Equal(buf, m.block(b)) {
					p := 0
					for buf[p] == m.block(b)[p] {
						p++
					}
					return fail("sparse|mismatch|after="+after, fmt.Sprintf("block %d (byte offset %d) of a %d MiB volume after %s: byte %d reads 0x%02x, last written 0x%02x", b, b*Blk, sc.SizeMiB, after, p, buf[p], m.block(b)[p]), "C01")
				}
			}
		}
		return nil
	}
	for i, op := range sc.Ops {
		switch op.K {
		case "write":
			off := op.Pos
			l := op.Len * Sec
			if off < 0 || off+l > size {
				continue
			}
			data := payload(i, op.Seed, off, l)
			_, err := s.WriteAt(data, off)
			tr("#%d write off=%d len=%d -> %v", i, off, l, err)
			if err != nil {
				return fail("sparse|write-error", fmt.Sprintf("write off=%d len=%d on a %d MiB volume: %v", off, l, sc.SizeMiB, err), "C01"), trace, labels, nil
			}
			m.write(off, data)
			if off >= 1<<32 {
				labels["sparse:write-beyond-4GiB"]++
			} else if off >= 1<<31 {
				labels["sparse:write-beyond-2GiB"]++
			}
		case "comb":
			// every Step-th block of a range: as many separate extents
			first, n, step := op.Pos, op.Len, op.Step
			if step < 2 {
				step = 2
			}
			cnt := 0
			for b := first; b < first+n && (b+1)*Blk <= size; b += step {
				data := payload(i, op.Seed, b*Blk, Blk)
				if _, err := s.WriteAt(data, b*Blk); err != nil {
					return fail("sparse|write-error", fmt.Sprintf("comb write block %d: %v", b, err), "C01"), trace, labels, nil
				}
				m.write(b*Blk, data)
				cnt++
			}
			tr("#%d comb first=%d blocks=%d step=%d (%d writes)", i, first, n, step, cnt)
			if cnt > 1024 {
				labels["sparse:more-than-1024-extents-in-one-write-phase"]++
			}
		case "snap":
			err := s.Snapshot(fmt.Sprintf("p%d", nsnap), op.On, "T")
			tr("#%d snapshot p%d user=%v -> %v", i, nsnap, op.On, err)
			if err != nil {
				return fail("sparse|snapshot-error", err.Error(), "C12"), trace, labels, nil
			}
			nsnap++
		case "punch":
			types.ShouldPunchHoles = op.On
			tr("#%d punch %v", i, op.On)
		case "reopen":
			s.Replica().VerifSetHoleDrainer(replica.VerifFastHoleDrainer)
			if err := s.Close(); err != nil {
				return fail("sparse|close-error", err.Error(), "C12"), trace, labels, nil
			}
			punch := types.ShouldPunchHoles
			if err := open(op.On); err != nil {
				return fail("sparse|reopen-error", fmt.Sprintf("open (preload=%v) of a %d MiB volume: %v", op.On, sc.SizeMiB, err), "C01", "C12"), trace, labels, nil
			}
			types.ShouldPunchHoles = punch
			tr("#%d reopen preload=%v", i, op.On)
			labels["sparse:reopen"]++
			if f := verify("reopen", true); f != nil {
				return f, trace, labels, nil
			}
			continue
		case "reload":
			punch := types.ShouldPunchHoles
			s.SetPreload(op.On)
			err := s.Reload()
			s.SetPreload(true)
			types.ShouldPunchHoles = punch
			if err != nil {
				return fail("sparse|reload-error", err.Error(), "C01", "C12"), trace, labels, nil
			}
			s.Replica().VerifSetHoleDrainer(replica.VerifFastHoleDrainer)
			tr("#%d reload preload=%v", i, op.On)
			if f := verify("reload", true); f != nil {
				return f, trace, labels, nil
			}
			continue
		}
		if f := verify(op.K, false); f != nil {
			return f, trace, labels, nil
		}
		if msg := takeFatal(); msg != "" {
			return fail("sparse|process-exit", msg, "C01", "C14"), trace, labels, nil
		}
	}
	if f := verify("end", true); f != nil {
		return f, trace, labels, nil
	}
	return nil, trace, labels, nil
}

func genSparseCase(t *rapid.T) SparseCase {
	sc := SparseCase{}
	comby := rapid.IntRange(0, 2).Draw(t, "comby") == 0
	if comby {
		sc.SizeMiB = int64(rapid.SampledFrom([]int{32, 64, 1024}).Draw(t, "size"))
	} else {
		sc.SizeMiB = int64(rapid.SampledFrom([]int{1024, 2048, 2049, 3072, 4096, 4100, 6144, 8192}).Draw(t, "size"))
	}
	size := sc.SizeMiB << 20
	var anchors []int64 // positions written by a ladder: later writes like to come back to them
	pos := func() int64 {
		var p int64
		cls := rapid.IntRange(0, 7).Draw(t, "posclass")
		if len(anchors) > 0 && cls >= 4 && cls <= 6 {
			a := rapid.SampledFrom(anchors).Draw(t, "anchor") + rapid.Int64Range(-9, 9).Draw(t, "pa")*Sec
			if a < 0 {
				a = 0
			}
			if a >= size {
				a = size - Sec
			}
			return a
		}
		switch cls {
		case 0:
			p = rapid.Int64Range(0, 64).Draw(t, "p0") * Sec
		case 1: // around a GiB mark (or, on a small volume, a MiB mark)
			g := rapid.Int64Range(1, sc.SizeMiB-1).Draw(t, "mib") << 20
			if sc.SizeMiB >= 2048 {
				g = rapid.Int64Range(1, sc.SizeMiB/1024-1).Draw(t, "gib") << 30
			}
			p = g + rapid.Int64Range(-32, 32).Draw(t, "pg")*Sec
		case 2: // around 2^31 and 2^32 bytes, and 2^31 sectors does not fit: 2^32 bytes is 2^23 sectors
			p = rapid.SampledFrom([]int64{1 << 31, 1 << 32, (1 << 32) + (1 << 31)}).Draw(t, "pow") + rapid.Int64Range(-16, 16).Draw(t, "pp")*Sec
		case 3: // the very end
			p = size - rapid.Int64Range(1, 64).Draw(t, "pe")*Sec
		default:
			p = rapid.Int64Range(0, size/Sec-1).Draw(t, "pr") * Sec
		}
		if p < 0 {
			p = 0
		}
		if p >= size {
			p = size - Sec
		}
		return p
	}
	n := rapid.IntRange(4, 18).Draw(t, "nops")
	for len(sc.Ops) < n+len(anchors) {
		switch rapid.IntRange(0, 11).Draw(t, "op") {
		case 0, 1, 2, 3, 4:
			p := pos()
			l := rapid.Int64Range(1, 24).Draw(t, "len")
			if p+l*Sec > size {
				l = (size - p) / Sec
			}
			sc.Ops = append(sc.Ops, SpOp{K: "write", Pos: p, Len: l, Seed: rapid.IntRange(1, 250).Draw(t, "seed")})
		case 5:
			if !comby && rapid.Bool().Draw(t, "ladder") {
				// a ladder: one short write every few hundred MiB over the whole volume - the
				// file's extents are far apart, but no gap reaches a GiB (or: some do)
				stride := int64(rapid.SampledFrom([]int{300, 700, 900, 1000, 1100, 1500}).Draw(t, "stride")) << 20
				first := rapid.Int64Range(0, 200).Draw(t, "lfirst") << 20
				seed := rapid.IntRange(1, 250).Draw(t, "lseed")
				for p := first; p+8*Sec <= size; p += stride {
					sc.Ops = append(sc.Ops, SpOp{K: "write", Pos: p, Len: rapid.Int64Range(1, 16).Draw(t, "llen"), Seed: seed})
					anchors = append(anchors, p)
				}
			}
			if comby {
				first := rapid.Int64Range(0, size/Blk/2).Draw(t, "first")
				sc.Ops = append(sc.Ops, SpOp{K: "comb", Pos: first, Len: rapid.Int64Range(200, 5000).Draw(t, "blocks"),
					Step: rapid.Int64Range(2, 3).Draw(t, "step"), Seed: rapid.IntRange(1, 250).Draw(t, "seed")})
			}
		case 6, 7:
			sc.Ops = append(sc.Ops, SpOp{K: "snap", On: rapid.IntRange(0, 2).Draw(t, "user") == 0})
		case 8, 9:
			sc.Ops = append(sc.Ops, SpOp{K: "reopen", On: rapid.IntRange(0, 3).Draw(t, "preload") > 0})
		case 10:
			sc.Ops = append(sc.Ops, SpOp{K: "reload", On: rapid.Bool().Draw(t, "preload")})
		case 11:
			sc.Ops = append(sc.Ops, SpOp{K: "punch", On: rapid.Bool().Draw(t, "on")})
		}
	}
	sc.Ops = append(sc.Ops, SpOp{K: "reopen", On: true})
	return sc
}

// TestC01Sparse — reads return the last write on volumes of several GiB and on
// files with thousands of extents.
func TestC01Sparse(t *testing.T) {
	rec := NewRecorder("C01", "TestC01Sparse")
	defer rec.Flush(t)
	run := func(sc SparseCase, fatalf func(string, ...interface{})) {
		f, trace, labels, err := runSparseCase(sc)
		if err != nil {
			fatalf("HARNESS ERROR: %v", err)
			return
		}
		var ls []string
		for k := range labels {
			ls = append(ls, k)
		}
		ls = append(ls, fmt.Sprintf("size:%dMiB", sc.SizeMiB))
		rec.Case(sc, labels["sparse:reopen"] > 0, ls...)
		if f != nil {
			detail := f.Detail + "\ntrace:\n  " + strings.Join(tail(trace, 30), "\n  ")
			if !f.Has("C01") {
				rec.Cross(f.String()+"\n"+detail, sc)
				return
			}
			if rec.Fail("C01", "C01|"+f.Sig, detail, sc) {
				return
			}
			fatalf("VIOLATION C01 %s: %s", f.Sig, detail)
		}
	}
	var rp SparseCase
	if isReplay, err := LoadReplay(&rp); isReplay {
		if err != nil || rp.SizeMiB == 0 {
			t.Skip("replay file is for another C01 test")
		}
		run(rp, t.Fatalf)
		return
	}
	checkBudget(t, func(rt *rapid.T) { run(genSparseCase(rt), rt.Fatalf) })
}
