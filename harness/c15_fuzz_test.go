package harness

import (
	"bytes"
	"fmt"
	"testing"

	"github.com/openebs/jiva/rpc"
	"pgregory.net/rapid"
)

// wireDecodeAgrees feeds bytes to Wire.Read and to the reference decoder and
// returns a description of the first disagreement ("" = they agree): arbitrary
// bytes never make the decoder panic, a frame the product decodes is the frame
// the reference decodes (and re-encodes to the consumed bytes), a bad magic is
// rejected, a truncated frame is an error.
func wireDecodeAgrees(in []byte) string {
	// the decoder allocates the declared payload length up front: keep every
	// declared length small (a hostile length is a resource question, not C15's)
	for pos := 0; pos+30 <= len(in); {
		if in[pos] != 0x03 || in[pos+1] != 0x1b {
			break
		}
		n := int(uint32(in[pos+26]) | uint32(in[pos+27])<<8 | uint32(in[pos+28])<<16 | uint32(in[pos+29])<<24)
		if n > 1<<20 {
			return ""
		}
		if n > len(in)-pos-30 {
			break
		}
		pos += 30 + n
	}
	conn := &bufConn{}
	conn.Write(in)
	w := rpc.NewWire(conn)
	rd := bytes.NewReader(in)
	for {
		before := rd.Len()
		// the product checks the magic right after reading it
		if before >= 2 && (in[len(in)-before] != 0x03 || in[len(in)-before+1] != 0x1b) {
			if m, err := w.Read(); err == nil {
				return fmt.Sprintf("frame with a wrong magic accepted: %+v", m)
			}
			return ""
		}
		want, rerr := refDecode(rd)
		m, err := w.Read()
		if rerr != nil {
			if err == nil {
				return fmt.Sprintf("the product decoded a frame the reference decoder rejects (%v): %+v", rerr, m)
			}
			return ""
		}
		if err != nil {
			return fmt.Sprintf("well-formed frame rejected: %v", err)
		}
		if m.Seq != want.Seq || m.Type != want.Type || m.Offset != want.Offset || m.Size != want.Size || !bytes.Equal(m.Data, want.Data) {
			return fmt.Sprintf("decoded %+v, reference %+v", m, want)
		}
		consumed := in[len(in)-before : len(in)-rd.Len()]
		if !bytes.Equal(refEncode(want), consumed) {
			return "re-encoding differs from the consumed bytes"
		}
	}
}

// FuzzC15WireRead is the native-fuzzing entry (manual use: go test -fuzz).
func FuzzC15WireRead(f *testing.F) {
	f.Add(refEncode(refFrame{Magic: rpc.MagicVersion, Seq: 1, Type: rpc.TypeRead, Offset: 4096, Size: 512}))
	f.Add(refEncode(refFrame{Magic: rpc.MagicVersion, Seq: 7, Type: rpc.TypeWrite, Offset: -1, Size: 3, Data: []byte("abc")}))
	f.Add(refEncode(refFrame{Magic: 0x1234, Seq: 1}))
	f.Add([]byte{0x03, 0x1b})
	f.Fuzz(func(t *testing.T, in []byte) {
		if msg := wireDecodeAgrees(in); msg != "" {
			t.Fatal(msg)
		}
	})
}

// TestC15Decode: byte streams built from valid frames with generated
// mutations (bit flips, truncation, junk inserted, bad magic) decode to what
// the reference decoder decodes, or are rejected.
func TestC15Decode(t *testing.T) {
	rec := NewRecorder("C15", "TestC15Decode")
	defer rec.Flush(t)
	run := func(in []byte, fatalf func(string, ...interface{})) {
		rec.Case(fmt.Sprintf("%x", headBytes(in, 64)), len(in) > 30, fmt.Sprintf("len<=%d", 1<<uint(bitlen(len(in)))))
		if msg := wireDecodeAgrees(in); msg != "" {
			if rec.Fail("C15", "C15|wire|decode|disagrees-with-reference", msg, fmt.Sprintf("%x", in)) {
				return
			}
			fatalf("VIOLATION C15 wire|decode: %s", msg)
		}
	}
	var rp string
	if isReplay, err := LoadReplay(&rp); isReplay {
		if err != nil || rp == "" {
			t.Skip("replay file is for another C15 test")
		}
		var b []byte
		fmt.Sscanf(rp, "%x", &b)
		run(b, t.Fatalf)
		return
	}
	checkBudget(t, func(rt *rapid.T) {
		var buf bytes.Buffer
		n := rapid.IntRange(1, 4).Draw(rt, "nframes")
		for i := 0; i < n; i++ {
			fc := genFrame(rt)
			if fc.Len > 20000 {
				fc.Len %= 20000
			}
			buf.Write(refEncode(refFrame{Magic: rpc.MagicVersion, Seq: fc.Seq, Type: fc.Type, Offset: fc.Offset, Size: fc.Size, Data: frameData(fc)}))
		}
		in := buf.Bytes()
		switch rapid.IntRange(0, 5).Draw(rt, "mutation") {
		case 0: // none
		case 1: // truncate
			in = in[:rapid.IntRange(0, len(in)).Draw(rt, "cut")]
		case 2: // flip a byte in a header or payload
			p := rapid.IntRange(0, len(in)-1).Draw(rt, "pos")
			in[p] ^= byte(rapid.IntRange(1, 255).Draw(rt, "xor"))
		case 3: // junk in front
			in = append(rapid.SliceOfN(rapid.Byte(), 1, 40).Draw(rt, "junk"), in...)
		case 4: // junk behind
			in = append(in, rapid.SliceOfN(rapid.Byte(), 1, 40).Draw(rt, "junk")...)
		case 5: // bad magic on the last frame only
			if len(in) >= 2 {
				in[0] ^= 0x40
			}
		}
		run(in, rt.Fatalf)
	})
}

func headBytes(b []byte, n int) []byte {
	if len(b) > n {
		return b[:n]
	}
	return b
}

func bitlen(n int) int {
	k := 0
	for n > 0 {
		k++
		n >>= 1
	}
	return k
}
