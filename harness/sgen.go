package harness

import (
	"fmt"

	"pgregory.net/rapid"
)

type SGenCfg struct {
	RFs        []int
	MinOps     int
	MaxOps     int
	W          map[string]int
	FaultPct   int  // percent of I/O ops that carry at least one failing node
	SlowFaults bool // allow stall/drop outcomes (cost >= deadline / 2 s)
	MaxSlow    int
	Blocks     int
	AllowDup   bool // C18: duplicate adds, unknown addresses, adds beyond RF, second WO
	RestFail   bool // per-node REST failures for management ops
	PingsPct   int  // percent of programs that run with monitor pings on
	NoSpare    bool // exactly RF nodes (every node is one of the configured replicas)
	FillPct    int  // percent of programs that begin by writing the whole volume
}

// faultBudget: how many stalls (each costs the stall time) and connection drops
// (cheap, but each ends with a replica detached) a program may still contain.
type faultBudget struct{ slow, drop int }

func genOutcomes(t *rapid.T, nodes int, cfg SGenCfg, slowLeft *faultBudget) []Outcome {
	out := make([]Outcome, nodes)
	if rapid.IntRange(0, 99).Draw(t, "faulty") >= cfg.FaultPct {
		return nil
	}
	// corner-biased: exactly half fail / all but one / all / one
	class := rapid.IntRange(0, 4).Draw(t, "fclass")
	var k int
	switch class {
	case 0:
		k = 1
	case 1:
		k = nodes / 2
	case 2:
		k = (nodes + 1) / 2
	case 3:
		k = nodes
	default:
		k = rapid.IntRange(1, nodes).Draw(t, "k")
	}
	if k < 1 {
		k = 1
	}
	perm := rapid.Permutation(seqInts(nodes)).Draw(t, "perm")
	for _, j := range perm[:k] {
		o := ERR
		if rapid.IntRange(0, 2).Draw(t, "diskerr") == 0 {
			o = DISKERR // (for a write: the replica's own disk write fails; otherwise like ERR)
		}
		if cfg.SlowFaults && slowLeft.slow > 0 && rapid.IntRange(0, 3).Draw(t, "slow") == 0 {
			o = rapid.SampledFrom([]Outcome{STALL, DROP, SLOW}).Draw(t, "slowkind")
			slowLeft.slow--
		} else if cfg.SlowFaults && slowLeft.drop > 0 && rapid.IntRange(0, 4).Draw(t, "drop") == 0 {
			// the connection breaks while the request is in flight: no reply at all
			o = DROP
			slowLeft.drop--
			if slowLeft.slow > 0 && rapid.Bool().Draw(t, "dropwait") {
				o = DROPWAIT // (costs 2 s: counted as a slow fault)
				slowLeft.slow--
			}
		}
		out[j] = o
	}
	for j := range out {
		if out[j] == "" {
			out[j] = OK
		}
	}
	return out
}

// GenSProgram generates a stack program. A light shadow of the membership is
// kept so that most generated membership ops are meaningful.
func GenSProgram(t *rapid.T, cfg SGenCfg) SProgram {
	rf := rapid.SampledFrom(cfg.RFs).Draw(t, "rf")
	nodes := rf
	if !cfg.NoSpare && (cfg.AllowDup || rapid.IntRange(0, 3).Draw(t, "spare") == 0) {
		nodes = rf + 1
	}
	blocks := cfg.Blocks
	if blocks == 0 {
		blocks = 8
	}
	p := SProgram{RF: rf, Nodes: nodes, Blocks: blocks}
	p.Pings = rapid.IntRange(0, 99).Draw(t, "pings") < cfg.PingsPct
	p.Init = rapid.IntRange(1, rf).Draw(t, "init")
	if rapid.IntRange(0, 2).Draw(t, "fullinit") > 0 {
		p.Init = rf
	}
	if cfg.W["boot"] > 0 || cfg.W["loneboot"] > 0 || cfg.W["staleboot"] > 0 {
		p.RegAll = rapid.Bool().Draw(t, "regall")
	}
	nops := rapid.IntRange(cfg.MinOps, cfg.MaxOps).Draw(t, "nops")
	slowLeft := faultBudget{slow: cfg.MaxSlow, drop: 3}
	var snapNames []string
	total := int64(blocks) * 8
	if cfg.FillPct > 0 && rapid.IntRange(0, 99).Draw(t, "fill") < cfg.FillPct {
		p.Ops = append(p.Ops, SOp{K: "write", Off: 0, Len: total, Seed: rapid.IntRange(1, 250).Draw(t, "fillseed")})
	}
	for len(p.Ops) < nops {
		k := weighted(t, cfg.W, "op")
		if k == "pingfail" && !p.Pings {
			k = "nodedrop"
		}
		switch k {
		case "write":
			off := rapid.Int64Range(0, total-1).Draw(t, "off")
			l := rapid.Int64Range(1, min64(total-off, 24)).Draw(t, "len")
			p.Ops = append(p.Ops, SOp{K: "write", Off: off, Len: l, Seed: rapid.IntRange(1, 250).Draw(t, "seed"), Out: genOutcomes(t, nodes, cfg, &slowLeft)})
		case "sync":
			p.Ops = append(p.Ops, SOp{K: "sync", Out: genOutcomes(t, nodes, cfg, &slowLeft)})
		case "unmap":
			off := rapid.Int64Range(0, total-1).Draw(t, "off")
			l := rapid.Int64Range(1, min64(total-off, 24)).Draw(t, "len")
			p.Ops = append(p.Ops, SOp{K: "unmap", Off: off, Len: l, Out: genOutcomes(t, nodes, cfg, &slowLeft)})
		case "read":
			off := rapid.Int64Range(0, total-1).Draw(t, "off")
			l := rapid.Int64Range(1, min64(total-off, 32)).Draw(t, "len")
			p.Ops = append(p.Ops, SOp{K: "read", Off: off, Len: l, Reps: rapid.IntRange(1, 4).Draw(t, "reps"), Out: genOutcomes(t, nodes, cfg, &slowLeft)})
		case "add":
			p.Ops = append(p.Ops, SOp{K: "add", Node: rapid.IntRange(0, nodes-1).Draw(t, "node")})
		case "readd":
			// the usual recovery: the detached node comes back, is added and rebuilt
			n := rapid.IntRange(0, nodes-1).Draw(t, "node")
			p.Ops = append(p.Ops, SOp{K: "reconnect", Node: n}, SOp{K: "add", Node: n})
			// I/O (with faults) while the replica is still rebuilding
			for k := rapid.IntRange(0, 3).Draw(t, "iowhilewo"); k > 0; k-- {
				off := rapid.Int64Range(0, total-1).Draw(t, "off")
				l := rapid.Int64Range(1, min64(total-off, 24)).Draw(t, "len")
				if rapid.IntRange(0, 2).Draw(t, "rw") == 0 || cfg.W["write"] == 0 {
					p.Ops = append(p.Ops, SOp{K: "read", Off: off, Len: l, Reps: rapid.IntRange(1, 3).Draw(t, "reps"), Out: genOutcomes(t, nodes, cfg, &slowLeft)})
				} else {
					p.Ops = append(p.Ops, SOp{K: "write", Off: off, Len: l, Seed: rapid.IntRange(1, 250).Draw(t, "seed"), Out: genOutcomes(t, nodes, cfg, &slowLeft)})
				}
			}
			if rapid.IntRange(0, 3).Draw(t, "promote") > 0 {
				o := SOp{K: "promote", Node: n, N: int64(rapid.IntRange(0, 2).Draw(t, "windowwrites")), Seed: rapid.IntRange(1, 5000).Draw(t, "wseed"), Reps: rapid.IntRange(0, 1).Draw(t, "waligned")}
				if cfg.W["write"] == 0 {
					o.N = 0
				} else if rapid.IntRange(0, 1).Draw(t, "verifyrace") == 0 {
					o.N, o.Str = 0, "verifyrace"
				}
				if cfg.RestFail && rapid.IntRange(0, 4).Draw(t, "cpfail") == 0 {
					o.Fail = []int{rapid.IntRange(0, nodes-1).Draw(t, "cpfailnode")}
				}
				p.Ops = append(p.Ops, o)
			} else if cfg.W["setmode"] > 0 && rapid.Bool().Draw(t, "forcerw") {
				// the rebuilding replica is declared RW through the set-mode API
				// instead (an operator override): the bookkeeping and the volume
				// status must follow that mode change like any other
				p.Ops = append(p.Ops, SOp{K: "setmode", Node: n, Name: "RW"})
			}
		case "promote":
			o := SOp{K: "promote", Node: rapid.IntRange(0, nodes-1).Draw(t, "node"), N: int64(rapid.IntRange(0, 2).Draw(t, "windowwrites")), Seed: rapid.IntRange(1, 5000).Draw(t, "wseed"), Reps: rapid.IntRange(0, 1).Draw(t, "waligned")}
			if cfg.W["write"] == 0 {
				o.N = 0
			}
			p.Ops = append(p.Ops, o)
		case "remove":
			o := SOp{K: "remove", Node: rapid.IntRange(0, nodes-1).Draw(t, "node")}
			if cfg.AllowDup && rapid.IntRange(0, 4).Draw(t, "unk") == 0 {
				o.Str = "tcp://127.99.99.99:9502"
			}
			p.Ops = append(p.Ops, o)
		case "staleboot":
			// the volume restarts on an older replica and a newer one rejoins: a leaves and
			// misses a write, everybody else is lost, a comes back together with b - which was
			// replaced by an empty replica - and is elected; then c, which holds more than a,
			// is added and rebuilt from a: its revision count has to come down to a's
			if nodes < 3 {
				continue
			}
			perm := rapid.Permutation(seqInts(nodes)).Draw(t, "abc")
			a, b, c := perm[0], perm[1], perm[2]
			p.Ops = append(p.Ops, SOp{K: "nodedrop", Node: a})
			for k := rapid.IntRange(1, 2).Draw(t, "missed"); k > 0; k-- {
				off := rapid.Int64Range(0, total-1).Draw(t, "off")
				p.Ops = append(p.Ops, SOp{K: "write", Off: off, Len: rapid.Int64Range(1, min64(total-off, 24)).Draw(t, "len"), Seed: rapid.IntRange(1, 250).Draw(t, "seed")})
			}
			for _, o := range perm[1:] {
				p.Ops = append(p.Ops, SOp{K: "nodedrop", Node: o})
			}
			p.Ops = append(p.Ops, SOp{K: "reconnect", Node: a}, SOp{K: "reconnect", Node: b, Str: "fresh"}, SOp{K: "boot", Node: b}, SOp{K: "boot", Node: a})
			if rapid.Bool().Draw(t, "writeafterrestart") {
				off := rapid.Int64Range(0, total-1).Draw(t, "off")
				p.Ops = append(p.Ops, SOp{K: "write", Off: off, Len: rapid.Int64Range(1, min64(total-off, 24)).Draw(t, "len"), Seed: rapid.IntRange(1, 250).Draw(t, "seed")})
			}
			p.Ops = append(p.Ops, SOp{K: "reconnect", Node: c}, SOp{K: "add", Node: c}, SOp{K: "promote", Node: c},
				SOp{K: "read", Off: 0, Len: min64(total, 32), Reps: 3})
		case "loneboot":
			// one replica leaves, the volume goes on (a write the leaver misses), then
			// every other replica is lost as well; the first one comes back alone and
			// registers: a single registration is no majority (RF >= 2) and whatever
			// it holds must not be served
			a := rapid.IntRange(0, nodes-1).Draw(t, "node")
			p.Ops = append(p.Ops, SOp{K: "nodedrop", Node: a})
			off := rapid.Int64Range(0, total-1).Draw(t, "off")
			p.Ops = append(p.Ops, SOp{K: "write", Off: off, Len: rapid.Int64Range(1, min64(total-off, 24)).Draw(t, "len"), Seed: rapid.IntRange(1, 250).Draw(t, "seed")})
			for _, b := range rapid.Permutation(seqInts(nodes)).Draw(t, "others") {
				if b != a {
					p.Ops = append(p.Ops, SOp{K: "nodedrop", Node: b})
				}
			}
			p.Ops = append(p.Ops, SOp{K: "reconnect", Node: a}, SOp{K: "boot", Node: a}, SOp{K: "read", Off: off, Len: 1, Reps: 2})
		case "pingfail", "nodedrop", "reconnect", "boot", "statsrace":
			p.Ops = append(p.Ops, SOp{K: k, Node: rapid.IntRange(0, nodes-1).Draw(t, "node")})
		case "snapshot":
			o := SOp{K: "snapshot", Name: fmt.Sprintf("v%d", len(p.Ops))}
			// names that look like file names: "<earlier name>.img" (so that both X and
			// X.img exist), "v7.img", "volume-snap-v7" - a snapshot name is free text,
			// its disk is volume-snap-<name>.img whatever the name looks like
			switch rapid.IntRange(0, 9).Draw(t, "namestyle") {
			case 0:
				if len(snapNames) > 0 {
					o.Name = rapid.SampledFrom(snapNames).Draw(t, "pairof") + ".img"
					for _, have := range snapNames {
						if have == o.Name {
							o.Name = fmt.Sprintf("v%d.img", len(p.Ops))
						}
					}
				} else {
					o.Name += ".img"
				}
			case 1:
				o.Name += ".img"
			case 2:
				o.Name = "volume-snap-" + o.Name
			}
			snapNames = append(snapNames, o.Name)
			if cfg.RestFail && rapid.IntRange(0, 2).Draw(t, "rf") == 0 {
				nf := rapid.IntRange(1, nodes).Draw(t, "nfail")
				o.Fail = rapid.Permutation(seqInts(nodes)).Draw(t, "failperm")[:nf]
				if p.Pings && rapid.Bool().Draw(t, "inflight") {
					o.Str = "inflight"
				}
			}
			p.Ops = append(p.Ops, o)
		case "rebuildnew":
			// a detached (or spare) node comes back and is rebuilt with foreground writes in between
			n := rapid.IntRange(0, nodes-1).Draw(t, "node")
			if rapid.IntRange(0, 3).Draw(t, "leavefirst") > 0 {
				p.Ops = append(p.Ops, SOp{K: rapid.SampledFrom([]string{"remove", "nodedrop"}).Draw(t, "leave"), Node: n})
				if rapid.Bool().Draw(t, "writewhileaway") {
					off := rapid.Int64Range(0, total-1).Draw(t, "off")
					p.Ops = append(p.Ops, SOp{K: "write", Off: off, Len: rapid.Int64Range(1, min64(total-off, 24)).Draw(t, "len"), Seed: rapid.IntRange(1, 250).Draw(t, "seed")})
				}
			}
			rc := SOp{K: "reconnect", Node: n}
			if rapid.IntRange(0, 2).Draw(t, "freshtarget") == 0 {
				rc.Str = "fresh"
			}
			p.Ops = append(p.Ops, rc, SOp{K: "add", Node: n},
				SOp{K: "rebuild", N: int64(rapid.IntRange(0, 3).Draw(t, "wpp")), Seed: rapid.IntRange(1, 5000).Draw(t, "seed"),
					Str: rapid.SampledFrom([]string{"", "", "", "", "skipfile", "verifyfail", "verifyfail", "nocopy", "nocopy", "writefail", "writefail", "writefail", "writefail"}).Draw(t, "interrupt"), On: rapid.Bool().Draw(t, "punch"),
					Reps: rapid.IntRange(0, 1).Draw(t, "aligned")})
		case "sysrebuild":
			n := rapid.IntRange(0, nodes-1).Draw(t, "node")
			if rapid.IntRange(0, 3).Draw(t, "leavefirst") > 0 {
				p.Ops = append(p.Ops, SOp{K: rapid.SampledFrom([]string{"remove", "nodedrop"}).Draw(t, "leave"), Node: n})
				if rapid.Bool().Draw(t, "writewhileaway") {
					off := rapid.Int64Range(0, total-1).Draw(t, "off")
					p.Ops = append(p.Ops, SOp{K: "write", Off: off, Len: rapid.Int64Range(1, min64(total-off, 24)).Draw(t, "len"), Seed: rapid.IntRange(1, 250).Draw(t, "seed")})
				}
			}
			if rapid.Bool().Draw(t, "freshtarget") {
				p.Ops = append(p.Ops, SOp{K: "reconnect", Node: n, Str: "fresh"})
			}
			p.Ops = append(p.Ops, SOp{K: "sysrebuild", Node: n, N: int64(rapid.IntRange(0, 12).Draw(t, "fgwrites")), Seed: rapid.IntRange(1, 5000).Draw(t, "seed"),
				Len: int64(rapid.IntRange(0, 400).Draw(t, "gapms")), Reps: rapid.IntRange(0, 1).Draw(t, "aligned")})
		case "ctlresize":
			o := SOp{K: "ctlresize"}
			switch rapid.IntRange(0, 9).Draw(t, "rsclass") {
			case 0, 1, 2, 3, 4:
				blocks += rapid.IntRange(1, 16).Draw(t, "grow")
				total = int64(blocks) * 8
				o.N = int64(blocks)
				// the size as the API takes it: plain bytes, or with a unit ("52k", "52kb", "52KiB")
				o.Reps = rapid.IntRange(0, 5).Draw(t, "sizespelling")
			case 5:
				o.N = int64(blocks)
			case 6:
				o.N = int64(rapid.IntRange(0, blocks-1).Draw(t, "shrink"))
			case 7:
				o.N = int64(blocks + 4)
				o.Name = "othervol"
			default:
				o.Str = rapid.SampledFrom([]string{"garbage", "12x", "-5", "1e3q"}).Draw(t, "rsgarbage")
			}
			p.Ops = append(p.Ops, o)
		case "race":
			p.Ops = append(p.Ops, SOp{K: "race", Node: rapid.IntRange(1, 3).Draw(t, "writers"), N: int64(rapid.IntRange(3, 40).Draw(t, "per")),
				Reps: rapid.IntRange(1, 3).Draw(t, "snaps"), Off: int64(rapid.IntRange(0, 3000).Draw(t, "delay")), Len: int64(rapid.IntRange(0, 2000).Draw(t, "spacing"))})
		case "ctlrevert":
			o := SOp{K: "ctlrevert", N: int64(rapid.IntRange(0, 7).Draw(t, "which"))}
			if cfg.RestFail && rapid.IntRange(0, 3).Draw(t, "rvfail") == 0 {
				nf := rapid.IntRange(1, nodes).Draw(t, "nrvfail")
				o.Fail = rapid.Permutation(seqInts(nodes)).Draw(t, "rvfailperm")[:nf]
			}
			p.Ops = append(p.Ops, o)
		case "readdcycle":
			// a replica is removed, comes back closed, is added, takes foreground writes while
			// it is rebuilding and is promoted - in half of the cases with a write arriving
			// while the controller verifies the rebuild
			n := rapid.IntRange(0, nodes-1).Draw(t, "node")
			p.Ops = append(p.Ops, SOp{K: "remove", Node: n}, SOp{K: "reconnect", Node: n}, SOp{K: "add", Node: n})
			for k := rapid.IntRange(0, 2).Draw(t, "wowrites"); k > 0; k-- {
				off := rapid.Int64Range(0, total-1).Draw(t, "off") / 8 * 8
				p.Ops = append(p.Ops, SOp{K: "write", Off: off, Len: 8 * rapid.Int64Range(1, 2).Draw(t, "nblk"), Seed: rapid.IntRange(1, 250).Draw(t, "seed")})
			}
			o := SOp{K: "promote", Node: n, Seed: rapid.IntRange(1, 5000).Draw(t, "wseed"), Reps: 1}
			if rapid.Bool().Draw(t, "verifyrace") {
				o.Str = "verifyrace"
			} else {
				o.N = int64(rapid.IntRange(0, 2).Draw(t, "windowwrites"))
			}
			p.Ops = append(p.Ops, o)
		case "unmapsnap":
			// a volume snapshot, one replica leaves and is rebuilt (it reopens its chain),
			// then an UNMAP over blocks the snapshot owns: the snapshot keeps its content
			// on every replica
			name := fmt.Sprintf("v%d", len(p.Ops))
			snapNames = append(snapNames, name)
			off := rapid.Int64Range(0, total-1).Draw(t, "off")
			l := rapid.Int64Range(1, min64(total-off, 24)).Draw(t, "len")
			n := rapid.IntRange(0, nodes-1).Draw(t, "node")
			p.Ops = append(p.Ops, SOp{K: "write", Off: off, Len: l, Seed: rapid.IntRange(1, 250).Draw(t, "seed")}, SOp{K: "snapshot", Name: name},
				SOp{K: "remove", Node: n}, SOp{K: "reconnect", Node: n}, SOp{K: "add", Node: n}, SOp{K: "promote", Node: n},
				SOp{K: "unmap", Off: off / 8 * 8, Len: min64((l+15)/8*8, total-off/8*8)}, SOp{K: "read", Off: off, Len: l, Reps: 3})
		case "revertfail":
			// a volume snapshot, a write, possibly one replica removed (so that the rest is
			// exactly the quorum), then a volume revert that fails on one of the replicas
			name := fmt.Sprintf("v%d", len(p.Ops))
			snapNames = append(snapNames, name)
			p.Ops = append(p.Ops, SOp{K: "snapshot", Name: name})
			off := rapid.Int64Range(0, total-1).Draw(t, "off")
			p.Ops = append(p.Ops, SOp{K: "write", Off: off, Len: rapid.Int64Range(1, min64(total-off, 24)).Draw(t, "len"), Seed: rapid.IntRange(1, 250).Draw(t, "seed")})
			perm := rapid.Permutation(seqInts(nodes)).Draw(t, "ab")
			if nodes >= 3 && rapid.Bool().Draw(t, "removeone") {
				p.Ops = append(p.Ops, SOp{K: "remove", Node: perm[0]})
			}
			p.Ops = append(p.Ops, SOp{K: "ctlrevert", N: int64(rapid.IntRange(0, 7).Draw(t, "which")), Fail: []int{perm[len(perm)-1]}},
				SOp{K: "write", Off: off, Len: 8, Seed: rapid.IntRange(1, 250).Draw(t, "seed2")})
		case "addlate":
			perm := rapid.Permutation(seqInts(nodes)).Draw(t, "ab")
			if nodes < 2 {
				continue
			}
			// both candidates leave (if attached) and come back closed
			p.Ops = append(p.Ops, SOp{K: "remove", Node: perm[0]}, SOp{K: "reconnect", Node: perm[0]}, SOp{K: "remove", Node: perm[1]}, SOp{K: "reconnect", Node: perm[1]},
				SOp{K: "addlate", Node: perm[0], N: int64(perm[1])})
		case "ctldelsnap":
			p.Ops = append(p.Ops, SOp{K: "ctldelsnap", N: int64(rapid.IntRange(0, 7).Draw(t, "which"))})
		case "addresize":
			n := rapid.IntRange(0, nodes-1).Draw(t, "node")
			add := rapid.IntRange(1, 8).Draw(t, "grow")
			// the candidate leaves (if attached) and comes back closed, then asks to be added while the volume grows
			p.Ops = append(p.Ops, SOp{K: "remove", Node: n}, SOp{K: "reconnect", Node: n}, SOp{K: "addresize", Node: n, N: int64(add)})
			blocks += add
			total = int64(blocks) * 8
		case "resizerace":
			add := rapid.IntRange(2, 8).Draw(t, "grow")
			sd := rapid.IntRange(0, 299).Draw(t, "second")
			p.Ops = append(p.Ops, SOp{K: "resizerace", N: int64(add), Seed: sd})
			blocks += add
			if sd%3 == 2 {
				blocks += 1 + (sd/3)%4
			}
			total = int64(blocks) * 8
		case "addwrite":
			n := rapid.IntRange(0, nodes-1).Draw(t, "node")
			p.Ops = append(p.Ops, SOp{K: "remove", Node: n}, SOp{K: "reconnect", Node: n},
				SOp{K: "addwrite", Node: n, Off: rapid.Int64Range(0, total-1).Draw(t, "off"), Seed: rapid.IntRange(1, 250).Draw(t, "seed")})
			if rapid.IntRange(0, 2).Draw(t, "promote") > 0 {
				p.Ops = append(p.Ops, SOp{K: "promote", Node: n})
			}
		case "iorace":
			off := rapid.Int64Range(0, total-1).Draw(t, "off")
			p.Ops = append(p.Ops, SOp{K: "iorace", Node: rapid.IntRange(0, nodes-1).Draw(t, "node"), Off: off / 8 * 8,
				Len: 8 * rapid.Int64Range(1, 2).Draw(t, "len"), Seed: rapid.IntRange(1, 250).Draw(t, "seed"),
				Str: rapid.SampledFrom([]string{"write", "write", "sync", "unmap"}).Draw(t, "second")})
		case "snaprace":
			off := rapid.Int64Range(0, total-1).Draw(t, "off")
			p.Ops = append(p.Ops, SOp{K: "snaprace", Node: rapid.IntRange(0, nodes-1).Draw(t, "node"), Off: off,
				Len: rapid.Int64Range(1, min64(total-off, 16)).Draw(t, "len"), Seed: rapid.IntRange(1, 250).Draw(t, "seed")})
			if cfg.W["race"] > 0 {
				// every block carries a racing writer's stamp: the stalled write puts back what is there
				p.Ops[len(p.Ops)-1].Seed = -1
			}
		case "promotecp":
			nf := rapid.IntRange(1, nodes).Draw(t, "ncpfail")
			p.Ops = append(p.Ops, SOp{K: "promote", Node: rapid.IntRange(0, nodes-1).Draw(t, "node"), Fail: rapid.Permutation(seqInts(nodes)).Draw(t, "cpfailperm")[:nf]})
		case "verifyonly":
			// a detached (or spare) node is added and verified without having been synced; reads follow
			n := rapid.IntRange(0, nodes-1).Draw(t, "node")
			p.Ops = append(p.Ops, SOp{K: "reconnect", Node: n}, SOp{K: "add", Node: n}, SOp{K: "verifyonly"})
			off := rapid.Int64Range(0, total-1).Draw(t, "off")
			p.Ops = append(p.Ops, SOp{K: "read", Off: off, Len: rapid.Int64Range(1, min64(total-off, 32)).Draw(t, "len"), Reps: 4})
		case "addrace":
			a := rapid.IntRange(0, nodes-1).Draw(t, "nodea")
			b := rapid.IntRange(0, nodes-1).Draw(t, "nodeb")
			// both candidates leave (if attached) and come back closed, then ask to be added at the same time
			p.Ops = append(p.Ops, SOp{K: "remove", Node: a}, SOp{K: "remove", Node: b}, SOp{K: "reconnect", Node: a}, SOp{K: "reconnect", Node: b},
				SOp{K: "addrace", Node: a, N: int64(b)})
		case "errio":
			off := rapid.Int64Range(0, total-1).Draw(t, "off")
			l := rapid.Int64Range(1, min64(total-off, 24)).Draw(t, "len")
			p.Ops = append(p.Ops, SOp{K: "errio", Node: rapid.IntRange(0, nodes-1).Draw(t, "node"), Off: off, Len: l, Seed: rapid.IntRange(1, 250).Draw(t, "seed")})
		case "setmodeseq":
			p.Ops = append(p.Ops, SOp{K: "setmodeseq", Node: rapid.IntRange(0, nodes-1).Draw(t, "node"),
				Name: rapid.SampledFrom([]string{"ERR,RW", "ERR,RW,RW", "RW,ERR,RW", "ERR,ERR", "ERR,RW,ERR"}).Draw(t, "modeseq")})
		case "setmode":
			o := SOp{K: "setmode", Node: rapid.IntRange(0, nodes-1).Draw(t, "node"),
				Name: rapid.SampledFrom([]string{"ERR", "ERR", "RW", "WO", "bogus"}).Draw(t, "mode")}
			if rapid.IntRange(0, 4).Draw(t, "unk") == 0 {
				o.Str = "tcp://127.99.99.99:9502"
			}
			p.Ops = append(p.Ops, o)
		default:
			panic("sgen: unknown kind " + k)
		}
	}
	return p
}
