package harness

import (
	"bufio"
	"bytes"
	"encoding/base64"
	"encoding/json"
	"fmt"
	"io"
	"net/http"
	"os"
	"os/exec"
	"path/filepath"
	"sort"
	"strings"
	"syscall"
	"testing"
	"time"

	"pgregory.net/rapid"
)

// APIReq is one generated management request.
type APIReq struct {
	Target string `json:"target"` // ctrl | node0..nodeN
	Method string `json:"method"`
	Path   string `json:"path"`   // placeholders {vol} {rep<i>} {badid} resolved at run time
	Action string `json:"action"` // value of ?action= ("" = none)
	Body   string `json:"body"`
	Class  string `json:"class"` // wellformed | method | action | id | body:<kind>
	Route  string `json:"route"` // route it was derived from (for signatures)
}

type APICase struct {
	Cfg  APIConfig `json:"cfg"`
	Reqs []APIReq  `json:"reqs"`
	// Storm: after the sequence, Workers goroutines send these requests
	// concurrently, Rounds times each (each worker starts at another position).
	Storm   []APIReq `json:"storm,omitempty"`
	Workers int      `json:"workers,omitempty"`
	Rounds  int      `json:"rounds,omitempty"`
}

type routeSpec struct {
	method, path, action, body string
	readsBody                  bool
}

func ctrlRoutes() []routeSpec {
	return []routeSpec{
		{"GET", "/", "", "", false}, {"GET", "/v1", "", "", false}, {"GET", "/v1/schemas", "", "", false},
		{"GET", "/v1/schemas/volume", "", "", false}, {"GET", "/v1/volumes", "", "", false},
		{"GET", "/v1/volumes/{vol}", "", "", false}, {"GET", "/v1/stats", "", "", false},
		{"GET", "/v1/checkpoint", "", "", false}, {"GET", "/v1/replicas", "", "", false},
		{"GET", "/v1/replicas/{rep0}", "", "", false}, {"GET", "/metrics", "", "", false},
		{"POST", "/v1/volumes/{vol}", "start", `{"replicas":["{addr0}"]}`, true},
		{"POST", "/v1/volumes/{vol}", "shutdown", ``, false},
		{"POST", "/v1/volumes/{vol}", "snapshot", `{"name":"apisnap"}`, true},
		{"POST", "/v1/volumes/{vol}", "revert", `{"name":"apisnap"}`, true},
		{"POST", "/v1/volumes/{vol}", "resize", `{"name":"vol","size":"65536"}`, true},
		{"POST", "/v1/volumes/{vol}", "setlogging", `{"logtofile":{"enable":false}}`, true},
		{"DELETE", "/v1/volumes/{vol}", "deleteSnapshot", `{"name":"apisnap"}`, true},
		{"POST", "/v1/register", "", `{"Address":"{ip1}","UUID":"u-1","RevCount":"3","RepType":"Backend","RepState":"closed","UpTime":5}`, true},
		{"POST", "/v1/replicas", "", `{"address":"{addrX}"}`, true},
		{"POST", "/v1/quorumreplicas", "", `{"address":"{addrX}"}`, true},
		{"POST", "/v1/replicas/{rep1}", "preparerebuild", ``, false},
		{"POST", "/v1/replicas/{rep1}", "verifyrebuild", ``, false},
		{"DELETE", "/v1/replicas/{rep1}", "", ``, false},
		{"PUT", "/v1/replicas/{rep0}", "", `{"mode":"ERR"}`, true},
		{"POST", "/v1/journal", "", `{"limit":10}`, true},
		{"POST", "/v1/delete", "", ``, false},
		{"POST", "/timeout", "", `{"timeout":"1"}`, true},
	}
}

func nodeRoutes() []routeSpec {
	r := []routeSpec{
		{"GET", "/ping", "", "", false}, {"GET", "/", "", "", false}, {"GET", "/v1", "", "", false},
		{"GET", "/v1/schemas", "", "", false}, {"GET", "/v1/stats", "", "", false}, {"GET", "/v1/rebuildinfo", "", "", false},
		{"GET", "/v1/replicas", "", "", false}, {"GET", "/v1/replicas/1", "", "", false},
		{"GET", "/v1/replicas/1/volusage", "", "", false}, {"GET", "/metrics", "", "", false},
		{"DELETE", "/v1/replicas/1", "", "", false}, {"DELETE", "/v1/delete", "", "", false},
	}
	acts := map[string]string{
		"start":              `{"Action":"start"}`,
		"reload":             `{}`,
		"updatecloneinfo":    `{"snapname":"apisnap","revisioncounter":"5"}`,
		"snapshot":           `{"name":"nsnap","usercreated":true,"created":"2020-01-01T00:00:00Z"}`,
		"open":               ``,
		"close":              ``,
		"resize":             `{"name":"vol","size":"65536"}`,
		"removedisk":         `{"name":"volume-snap-nsnap.img"}`,
		"replacedisk":        `{"target":"volume-snap-a.img","source":"volume-snap-b.img"}`,
		"setrebuilding":      `{"rebuilding":true}`,
		"setlogging":         `{"logtofile":{"enable":false}}`,
		"create":             `{"size":"32768"}`,
		"revert":             `{"name":"volume-snap-nsnap.img","created":"2020-01-01T00:00:00Z"}`,
		"prepareremovedisk":  `{"name":"nsnap"}`,
		"setrevisioncounter": `{"counter":"7"}`,
		"setreplicamode":     `{"mode":"RW"}`,
		"setcheckpoint":      `{"snapshotName":"volume-snap-nsnap.img"}`,
	}
	names := []string{"start", "reload", "updatecloneinfo", "snapshot", "open", "close", "resize", "removedisk", "replacedisk",
		"setrebuilding", "setlogging", "create", "revert", "prepareremovedisk", "setrevisioncounter", "setreplicamode", "setcheckpoint"}
	for _, a := range names {
		r = append(r, routeSpec{"POST", "/v1/replicas/1", a, acts[a], a != "reload" && a != "open" && a != "close"})
	}
	return r
}

var otherBodies = []string{
	`{"name":"apisnap"}`, `{"replicas":["tcp://127.99.99.99:9502"]}`, `{"address":"tcp://127.99.99.99:9502"}`,
	`{"mode":"RW"}`, `{"size":"1"}`, `{"Action":"add"}`, `{"name":"","created":""}`, `{"counter":"-1"}`,
}

func genAPIReq(t *rapid.T, nNodes int) APIReq {
	toCtrl := rapid.IntRange(0, 9).Draw(t, "toctrl") < 5
	var routes []routeSpec
	target := "ctrl"
	if toCtrl {
		routes = ctrlRoutes()
	} else {
		routes = nodeRoutes()
		target = fmt.Sprintf("node%d", rapid.IntRange(0, nNodes-1).Draw(t, "node"))
	}
	// mutating routes are drawn more often than plain GETs
	var rs routeSpec
	if rapid.IntRange(0, 3).Draw(t, "mut") > 0 {
		var m []routeSpec
		for _, r := range routes {
			if r.method != "GET" {
				m = append(m, r)
			}
		}
		rs = rapid.SampledFrom(m).Draw(t, "route")
	} else {
		rs = rapid.SampledFrom(routes).Draw(t, "route")
	}
	req := APIReq{Target: target, Method: rs.method, Path: rs.path, Action: rs.action, Body: rs.body, Class: "wellformed",
		Route: rs.method + " " + rs.path + "?" + rs.action}
	switch rapid.IntRange(0, 11).Draw(t, "class") {
	case 0, 1, 2, 3, 4: // well-formed
	case 5:
		req.Method = rapid.SampledFrom([]string{"GET", "POST", "PUT", "DELETE", "PATCH", "HEAD", "OPTIONS"}).Draw(t, "method")
		if req.Method != rs.method {
			req.Class = "method"
		}
	case 6:
		req.Action = rapid.SampledFrom([]string{"nosuchaction", "", "START", "snapshot", "open", "verifyrebuild", "deleteSnapshot", "updatediskmode", "setreplicacounter"}).Draw(t, "action")
		if req.Action != rs.action {
			req.Class = "action"
		}
	case 7:
		if strings.Contains(req.Path, "{rep") || strings.Contains(req.Path, "{vol}") {
			bad := rapid.SampledFrom([]string{"{badid:notbase64!!}", "{badid:unknown}", "{badid:empty}", "{badid:long}"}).Draw(t, "badid")
			req.Path = strings.NewReplacer("{rep0}", bad, "{rep1}", bad, "{vol}", bad).Replace(req.Path)
			req.Class = "id"
		} else if strings.HasSuffix(req.Path, "/1") {
			req.Path = strings.TrimSuffix(req.Path, "/1") + "/" + rapid.SampledFrom([]string{"2", "0", "x", "%00"}).Draw(t, "repid")
			req.Class = "id"
		}
	default: // body mutations
		kind := rapid.SampledFrom([]string{"other", "wrongtypes", "truncated", "empty", "nonjson", "oversized", "null", "array"}).Draw(t, "bodykind")
		switch kind {
		case "other":
			req.Body = rapid.SampledFrom(otherBodies).Draw(t, "otherbody")
		case "wrongtypes":
			req.Body = `{"name":5,"replicas":"x","address":[1],"mode":{},"size":true,"Action":3,"rebuilding":"yes","counter":9,"snapshotName":[],"created":1,"usercreated":"no","logtofile":7,"limit":"x","UpTime":"soon","RevCount":4}`
		case "truncated":
			if len(rs.body) > 2 {
				req.Body = rs.body[:len(rs.body)/2]
			} else {
				req.Body = `{"name":"x`
			}
		case "empty":
			req.Body = ""
		case "nonjson":
			req.Body = "\x00\xff<<this is not json>>\x01"
		case "oversized":
			req.Body = "OVERSIZED"
		case "null":
			req.Body = "null"
		case "array":
			req.Body = `[1,2,3]`
		}
		req.Class = "body:" + kind
	}
	return req
}

type apiChild struct {
	cmd   *exec.Cmd
	admin string
	ctrl  string
	nodes []string
	errb  *bytes.Buffer
	done  chan error
}

var c14Slot int

func startAPIChild(cfg APIConfig) (*apiChild, error) {
	self := os.Getenv("VERIF_SELF")
	if self == "" {
		self = os.Args[0]
	}
	c14Slot++
	cb, _ := json.Marshal(cfg)
	dir := newCaseDir("api")
	cmd := exec.Command(self)
	cmd.Env = append(os.Environ(), "VERIF_CHILD=apiserver", "VERIF_API_CFG="+string(cb), "VERIF_SCRATCH="+dir,
		fmt.Sprintf("VERIF_SLOT=%d", (c14Slot-1)%250+1))
	cmd.SysProcAttr = &syscall.SysProcAttr{Pdeathsig: syscall.SIGKILL, Setpgid: true}
	out, err := cmd.StdoutPipe()
	if err != nil {
		return nil, err
	}
	ch := &apiChild{cmd: cmd, errb: &bytes.Buffer{}, done: make(chan error, 1)}
	cmd.Stderr = ch.errb
	if err := cmd.Start(); err != nil {
		return nil, err
	}
	go func() { ch.done <- cmd.Wait() }()
	rd := bufio.NewReader(out)
	ready := make(chan string, 1)
	go func() {
		for {
			l, err := rd.ReadString('\n')
			if strings.HasPrefix(l, "READY ") {
				ready <- l
			}
			if err != nil {
				return
			}
		}
	}()
	select {
	case l := <-ready:
		parts := strings.SplitN(strings.TrimSpace(l), " ", 3)
		ch.admin = parts[1]
		var info apiProbe
		json.Unmarshal([]byte(parts[2]), &info)
		ch.ctrl, ch.nodes = info.Ctrl, info.Nodes
		return ch, nil
	case err := <-ch.done:
		return nil, fmt.Errorf("child exited during start-up: %v\n%s", err, tailStr(ch.errb.String(), 2000))
	case <-time.After(40 * time.Second):
		ch.kill()
		return nil, fmt.Errorf("child not ready after 40 s\n%s", tailStr(ch.errb.String(), 2000))
	}
}

func (c *apiChild) kill() {
	if c.cmd.Process != nil {
		syscall.Kill(-c.cmd.Process.Pid, syscall.SIGKILL)
	}
	select {
	case <-c.done:
	case <-time.After(5 * time.Second):
	}
}

func (c *apiChild) exited() (bool, string) {
	select {
	case err := <-c.done:
		c.done <- err
		return true, fmt.Sprintf("%v", err)
	default:
		return false, ""
	}
}

func tailStr(s string, n int) string {
	if len(s) > n {
		return s[len(s)-n:]
	}
	return s
}

func (c *apiChild) resolve(r APIReq, nodes []string) (url string, body io.Reader, blen int) {
	host := c.ctrl
	if strings.HasPrefix(r.Target, "node") {
		var i int
		fmt.Sscanf(r.Target, "node%d", &i)
		host = nodes[i%len(nodes)]
	}
	enc := func(s string) string { return base64.StdEncoding.EncodeToString([]byte(s)) }
	addr := func(i int) string { return "tcp://" + nodes[i%len(nodes)] }
	ip := func(i int) string { return strings.Split(nodes[i%len(nodes)], ":")[0] }
	rep := strings.NewReplacer(
		"{vol}", enc("vol"), "{rep0}", enc(addr(0)), "{rep1}", enc(addr(len(nodes)-2)),
		"{badid:notbase64!!}", "notbase64!!", "{badid:unknown}", enc("tcp://127.99.99.99:9502"), "{badid:empty}", "%20",
		"{badid:long}", strings.Repeat("QUJD", 600),
		"{addr0}", addr(0), "{addrX}", addr(len(nodes)-1), "{ip1}", ip(len(nodes)-1))
	p := rep.Replace(r.Path)
	u := "http://" + host + p
	if r.Action != "" {
		u += "?action=" + r.Action
	}
	b := rep.Replace(r.Body)
	if b == "OVERSIZED" {
		b = `{"name":"` + strings.Repeat("A", 1<<20) + `"}`
	}
	if b == "" {
		return u, nil, 0
	}
	return u, strings.NewReader(b), len(b)
}

// runAPICase runs one request sequence against a fresh child.
func runAPICase(ac APICase) (*Fail, error) {
	ch, err := startAPIChild(ac.Cfg)
	if err != nil {
		return nil, err
	}
	defer func() {
		ch.kill()
	}()
	client := &http.Client{Timeout: 20 * time.Second}
	get := func(u string) (int, error) {
		rq, _ := http.NewRequest("GET", u, nil)
		rq.Header.Set("X-Verif-Origin", "harness")
		resp, err := client.Do(rq)
		if err != nil {
			return 0, err
		}
		io.Copy(io.Discard, resp.Body)
		resp.Body.Close()
		return resp.StatusCode, nil
	}
	// alive: both APIs answer, no handler panicked, every lock can be obtained
	alive := func(sigBase, what string) (*Fail, error) {
		// liveness of both APIs
		if code, err := get("http://" + ch.ctrl + "/v1/volumes"); err != nil || code != 200 {
			if dead, how := ch.exited(); dead {
				return fail(sigBase+"|process-exit", what+"\nthe API process terminated: "+how+"\n"+tailStr(ch.errb.String(), 1500), "C14"), nil
			}
			return fail(sigBase+"|controller-api-wedged", what+fmt.Sprintf("\nafterwards GET /v1/volumes on the controller: code=%d err=%v", code, err), "C14"), nil
		}
		for ni, n := range ch.nodes {
			if code, err := get("http://" + n + "/v1/replicas/1"); err != nil || code != 200 {
				return fail(sigBase+"|replica-api-wedged", what+fmt.Sprintf("\nafterwards GET /v1/replicas/1 on node %d: code=%d err=%v", ni, code, err), "C14"), nil
			}
		}
		// admin probe: panics, locks
		var pr apiProbe
		presp, err := client.Get("http://" + ch.admin + "/probe")
		if err != nil {
			if dead, how := ch.exited(); dead {
				return fail(sigBase+"|process-exit", what+"\nthe API process terminated: "+how, "C14"), nil
			}
			return nil, fmt.Errorf("admin probe failed: %v", err)
		}
		json.NewDecoder(presp.Body).Decode(&pr)
		presp.Body.Close()
		if len(pr.Panics) > 0 {
			return fail(sigBase+"|handler-panic", what+"\n"+headStr(pr.Panics[0], 1800), "C14"), nil
		}
		if !pr.CtrlLock {
			return fail(sigBase+"|controller-lock-held", what+"\nthe controller lock could not be obtained within 10 s afterwards", "C14"), nil
		}
		for ni, ok := range pr.NodeLocks {
			if !ok {
				return fail(sigBase+"|replica-lock-held", what+fmt.Sprintf("\nthe server lock of node %d could not be obtained within 10 s afterwards", ni), "C14"), nil
			}
		}

		return nil, nil
	}
	for i, r := range ac.Reqs {
		u, body, _ := ch.resolve(r, ch.nodes)
		req, err := http.NewRequest(r.Method, u, body)
		if err != nil {
			continue // not expressible as an HTTP request
		}
		if body != nil {
			req.Header.Set("Content-Type", "application/json")
		}
		req.Header.Set("X-Verif-Origin", "harness")
		what := fmt.Sprintf("request %d: %s %s %s?action=%s class=%s body=%q (state %s/%s RF=%d)", i, r.Target, r.Method, r.Path, r.Action, r.Class, tailStr(r.Body, 80), ac.Cfg.State, ac.Cfg.Extra, ac.Cfg.RF)
		sigBase := fmt.Sprintf("%s|%s|%s", targetKind(r.Target), r.Route, r.Class)
		t0 := time.Now()
		resp, err := client.Do(req)
		status := 0
		if err == nil {
			io.Copy(io.Discard, resp.Body)
			resp.Body.Close()
			status = resp.StatusCode
		}
		if dead, how := ch.exited(); dead {
			return fail(sigBase+"|process-exit", what+"\nthe API process terminated: "+how+"\nstderr tail:\n"+tailStr(ch.errb.String(), 1500), "C14"), nil
		}
		if err != nil && time.Since(t0) >= 19*time.Second {
			// ask the child for its goroutine dump: where is the request stuck?
			syscall.Kill(ch.cmd.Process.Pid, syscall.SIGQUIT)
			time.Sleep(500 * time.Millisecond)
			return fail(sigBase+"|request-hangs", what+fmt.Sprintf("\nno answer within 20 s: %v\ngoroutines of the API process (filtered):\n%s", err, filterStacks(ch.errb.String())), "C14"), nil
		}
		if f, err := alive(sigBase, what); f != nil || err != nil {
			return f, err
		}
		// status classes
		if err == nil {
			switch {
			case r.Class == "method" && status < 400 && !isRoutable(r):
				return fail(sigBase+"|unroutable-answered-"+fmt.Sprint(status), what+fmt.Sprintf("\nanswered %d", status), "C14"), nil
			case r.Class == "action" && status < 400 && r.Method != "GET" && !isRoutable(r):
				return fail(sigBase+"|unknown-action-answered-"+fmt.Sprint(status), what+fmt.Sprintf("\nanswered %d", status), "C14"), nil
			case (r.Class == "body:truncated" || r.Class == "body:nonjson") && status < 400 && r.Body != "" && readsBody(r):
				return fail(sigBase+"|malformed-body-answered-"+fmt.Sprint(status), what+fmt.Sprintf("\nanswered %d", status), "C14"), nil
			}
		}
	}
	if len(ac.Storm) > 0 && ac.Workers > 0 {
		type sres struct {
			idx  int
			err  error
			took time.Duration
		}
		resc := make(chan sres, ac.Workers*ac.Rounds*len(ac.Storm)+1)
		done := make(chan struct{})
		for w := 0; w < ac.Workers; w++ {
			go func(w int) {
				defer func() { done <- struct{}{} }()
				cl := &http.Client{Timeout: 25 * time.Second}
				for r := 0; r < ac.Rounds; r++ {
					for k := range ac.Storm {
						idx := (k + w) % len(ac.Storm)
						u, body, _ := ch.resolve(ac.Storm[idx], ch.nodes)
						req, err := http.NewRequest(ac.Storm[idx].Method, u, body)
						if err != nil {
							continue
						}
						if body != nil {
							req.Header.Set("Content-Type", "application/json")
						}
						req.Header.Set("X-Verif-Origin", "harness")
						t0 := time.Now()
						resp, err := cl.Do(req)
						if err == nil {
							io.Copy(io.Discard, resp.Body)
							resp.Body.Close()
						}
						resc <- sres{idx, err, time.Since(t0)}
						if err != nil && time.Since(t0) >= 24*time.Second {
							return // wedged: do not pile up more
						}
					}
				}
			}(w)
		}
		for w := 0; w < ac.Workers; w++ {
			<-done
		}
		close(resc)
		var rs []string
		for _, r := range ac.Storm {
			rs = append(rs, fmt.Sprintf("%s %s %s?action=%s", r.Target, r.Method, r.Path, r.Action))
		}
		what := fmt.Sprintf("storm of %d workers x %d rounds over [%s] (state %s/%s RF=%d)", ac.Workers, ac.Rounds, strings.Join(rs, "; "), ac.Cfg.State, ac.Cfg.Extra, ac.Cfg.RF)
		sigBase := "storm|" + stormSig(ac.Storm)
		if dead, how := ch.exited(); dead {
			return fail(sigBase+"|process-exit", what+"\nthe API process terminated: "+how+"\n"+crashHead(ch.errb.String())+"\nstderr tail:\n"+tailStr(ch.errb.String(), 1500), "C14"), nil
		}
		for r := range resc {
			if r.err != nil && r.took >= 24*time.Second {
				syscall.Kill(ch.cmd.Process.Pid, syscall.SIGQUIT)
				time.Sleep(500 * time.Millisecond)
				return fail(sigBase+"|request-hangs", what+fmt.Sprintf("\nrequest %s not answered within 25 s: %v\ngoroutines of the API process (filtered):\n%s", rs[r.idx], r.err, filterStacks(ch.errb.String())), "C14"), nil
			}
		}
		if f, err := alive(sigBase, what); f != nil || err != nil {
			return f, err
		}
	}
	return nil, nil
}

// stormSig: the routes of a storm (sorted, deduplicated) - input-level facts only.
func stormSig(rs []APIReq) string {
	m := map[string]bool{}
	for _, r := range rs {
		m[targetKind(r.Target)+" "+r.Route] = true
	}
	var out []string
	for k := range m {
		out = append(out, k)
	}
	sort.Strings(out)
	return strings.Join(out, ",")
}

// crashHead: the line that says why a Go process died, with the first frames below it.
func crashHead(stderr string) string {
	lines := strings.Split(stderr, "\n")
	for i, l := range lines {
		if strings.HasPrefix(l, "fatal error:") || strings.HasPrefix(l, "panic:") {
			end := i + 14
			if end > len(lines) {
				end = len(lines)
			}
			return strings.Join(lines[i:end], "\n")
		}
	}
	return ""
}

func isCtrlRoute(r APIReq) bool {
	for _, rs := range ctrlRoutes() {
		if rs.method+" "+rs.path+"?"+rs.action == r.Route {
			return true
		}
	}
	return false
}

func targetKind(t string) string {
	if t == "ctrl" {
		return "controller"
	}
	return "replica"
}

func isRoutable(r APIReq) bool {
	if r.Path == "/metrics" {
		return true // registered for every method
	}
	routes := nodeRoutes()
	if r.Target == "ctrl" {
		routes = ctrlRoutes()
	}
	norm := strings.NewReplacer("{rep0}", "{rep}", "{rep1}", "{rep}")
	for _, rs := range routes {
		if rs.method == r.Method && norm.Replace(rs.path) == norm.Replace(r.Path) && (rs.action == r.Action || rs.action == "") {
			return true
		}
	}
	return false
}

func readsBody(r APIReq) bool {
	routes := nodeRoutes()
	if r.Target == "ctrl" {
		routes = ctrlRoutes()
	}
	for _, rs := range routes {
		if rs.method == r.Method && rs.path == r.Path && rs.action == r.Action {
			return rs.readsBody
		}
	}
	return false
}

func genAPICase(t *rapid.T) APICase {
	cfg := APIConfig{
		RF:    rapid.SampledFrom([]int{1, 2, 3, 3}).Draw(t, "rf"),
		State: rapid.SampledFrom([]string{"empty", "started", "started", "degraded", "wo"}).Draw(t, "state"),
		Extra: rapid.SampledFrom([]string{"initial", "closed", "closed", "open", "rebuilding"}).Draw(t, "extra"),
	}
	addExtra := false
	if rapid.IntRange(0, 5).Draw(t, "extrasize") == 0 {
		// a closed stand-alone replica whose volume has another size, and a volume with a
		// free slot: the request to add it is among the requests
		cfg.ExtraSize = rapid.SampledFrom([]string{"bigger", "smaller"}).Draw(t, "extrasizekind")
		cfg.Extra = "closed"
		cfg.State = "degraded"
		if cfg.RF < 2 {
			cfg.RF = 2
		}
		addExtra = true
	}
	// in a third of the cases one or two of the requests the controller sends to
	// its replicas while it serves a management request get no answer (connection closed)
	if rapid.IntRange(0, 2).Draw(t, "drops") == 0 {
		pats := []string{"DELETE /v1/delete", "?snapshot", "?revert", "?resize", "?close", "?open", "?setreplicamode", "?setrevisioncounter",
			"?prepareremovedisk", "GET /v1/replicas/1", "?setcheckpoint", "?start", "?setrebuilding", "?reload"}
		for k := rapid.IntRange(1, 2).Draw(t, "ndrops"); k > 0; k-- {
			cfg.Drop = append(cfg.Drop, rapid.SampledFrom(pats).Draw(t, "drop"))
		}
	}
	n := rapid.IntRange(1, 30).Draw(t, "nreq")
	ac := APICase{Cfg: cfg}
	for i := 0; i < n; i++ {
		r := genAPIReq(t, cfg.RF+1)
		ac.Reqs = append(ac.Reqs, r)
		// bursts: the same request repeated (bounded queues, idempotence)
		if rapid.IntRange(0, 9).Draw(t, "burst") == 0 {
			k := rapid.IntRange(1, 8).Draw(t, "repeat")
			for j := 0; j < k; j++ {
				ac.Reqs = append(ac.Reqs, r)
			}
		}
	}
	if addExtra {
		pos := rapid.IntRange(0, len(ac.Reqs)).Draw(t, "addextrapos")
		add := APIReq{Target: "ctrl", Method: "POST", Path: "/v1/replicas", Body: `{"address":"{addrX}"}`, Class: "wellformed", Route: "POST /v1/replicas?"}
		ac.Reqs = append(ac.Reqs[:pos], append([]APIReq{add}, ac.Reqs[pos:]...)...)
	}
	// a storm of concurrent requests against one target: status reads (which take
	// the read locks) together with mutating requests (which take the write locks)
	if rapid.IntRange(0, 9).Draw(t, "storm") < 4 {
		target := "ctrl"
		statusPath := "/v1/replicas"
		if rapid.IntRange(0, 2).Draw(t, "stormnode") > 0 {
			target = fmt.Sprintf("node%d", rapid.IntRange(0, cfg.RF).Draw(t, "stormtarget"))
			statusPath = "/v1/replicas/1"
		}
		ac.Storm = append(ac.Storm, APIReq{Target: target, Method: "GET", Path: statusPath, Class: "wellformed", Route: "GET " + statusPath + "?"})
		for k := rapid.IntRange(1, 5).Draw(t, "stormreqs"); k > 0; k-- {
			r := genAPIReq(t, cfg.RF+1)
			r.Target = target
			if (target == "ctrl") != (strings.HasPrefix(r.Route, "GET /v1/volumes") || isCtrlRoute(r)) {
				// the route belongs to the other API: keep the status read instead
				r = ac.Storm[0]
			}
			ac.Storm = append(ac.Storm, r)
		}
		ac.Workers = rapid.IntRange(2, 10).Draw(t, "workers")
		ac.Rounds = rapid.IntRange(1, 12).Draw(t, "rounds")
	}
	// trailing well-formed requests
	ac.Reqs = append(ac.Reqs,
		APIReq{Target: "ctrl", Method: "GET", Path: "/v1/replicas", Class: "wellformed", Route: "GET /v1/replicas?"},
		APIReq{Target: "node0", Method: "GET", Path: "/v1/replicas/1", Class: "wellformed", Route: "GET /v1/replicas/1?"})
	return ac
}

// TestC14 — no management API request can crash or wedge the controller or a replica.
func TestC14(t *testing.T) {
	rec := NewRecorder("C14", "TestC14")
	defer rec.Flush(t)
	run := func(ac APICase, fatalf func(string, ...interface{})) {
		nt := false
		seenMal := false
		classes := map[string]bool{}
		for _, r := range ac.Reqs {
			classes[r.Class] = true
			if r.Class != "wellformed" {
				seenMal = true
			} else if seenMal {
				nt = true
			}
		}
		labels := []string{"state:" + ac.Cfg.State, "extra:" + ac.Cfg.Extra}
		if len(ac.Cfg.Drop) > 0 {
			labels = append(labels, "replica-requests-dropped")
		}
		if ac.Cfg.ExtraSize != "" {
			labels = append(labels, "extra-replica-"+ac.Cfg.ExtraSize)
		}
		for c := range classes {
			labels = append(labels, "class:"+c)
		}
		if len(ac.Storm) > 0 {
			labels = append(labels, "storm")
			if strings.HasPrefix(ac.Storm[0].Target, "node") {
				labels = append(labels, "storm:replica-api")
			} else {
				labels = append(labels, "storm:controller-api")
			}
			rec.AddExtra("storm_requests", len(ac.Storm)*ac.Workers*ac.Rounds)
		}
		rec.Case(ac, nt, labels...)
		rec.AddExtra("requests", len(ac.Reqs))
		f, err := runAPICase(ac)
		if err != nil {
			fatalf("HARNESS ERROR: %v", err)
			return
		}
		if f != nil {
			if rec.Fail("C14", "C14|"+f.Sig, f.Detail, ac) {
				return
			}
			fatalf("VIOLATION C14 %s: %s", f.Sig, f.Detail)
		}
	}
	var rp APICase
	if isReplay, err := LoadReplay(&rp); isReplay {
		if err != nil {
			t.Fatalf("HARNESS ERROR: %v", err)
		}
		run(rp, t.Fatalf)
		return
	}
	if firstShard() {
		for _, rf := range regressFiles("TestC14") {
			var c APICase
			if err := loadCaseFile(rf, &c); err != nil {
				t.Fatalf("HARNESS ERROR: bad regression file %s: %v", rf, err)
			}
			rec.Label("regress-replayed", 1)
			run(c, t.Fatalf)
		}
	}
	checkBudget(t, func(rt *rapid.T) {
		run(genAPICase(rt), rt.Fatalf)
	})
}

// filterStacks keeps the goroutines of a SIGQUIT dump that are inside jiva code.
func filterStacks(dump string) string {
	if d := os.Getenv("VERIF_DUMP_DIR"); d != "" {
		os.MkdirAll(d, 0700)
		os.WriteFile(filepath.Join(d, fmt.Sprintf("goroutines-%d.txt", time.Now().UnixNano())), []byte(dump), 0600)
	}
	var out []string
	// goroutines in the product's request handlers and in the controller first
	var first, rest []string
	for _, g := range strings.Split(dump, "\n\n") {
		if strings.Contains(g, "controller.(*Controller)") || strings.Contains(g, "controller/rest.(*Server)") {
			first = append(first, g)
		} else {
			rest = append(rest, g)
		}
	}
	dump = strings.Join(append(first, rest...), "\n\n")
	for _, g := range strings.Split(dump, "\n\n") {
		if strings.Contains(g, "openebs/jiva") && !strings.Contains(g, "monitorPing") && !strings.Contains(g, "CreateHoles") {
			lines := strings.Split(g, "\n")
			if len(lines) > 24 {
				lines = lines[:24]
			}
			out = append(out, strings.Join(lines, "\n"))
		}
	}
	r := strings.Join(out, "\n\n")
	if len(r) > 6000 {
		r = r[:6000]
	}
	return r
}
