package harness

import (
	"fmt"
	"sort"
	"strings"
	"testing"
	"time"

	"github.com/openebs/jiva/backend/remote"
	"github.com/openebs/jiva/types"
	"pgregory.net/rapid"
)

// ---- scripted bootstrap election ------------------------------------------

type RegSpec struct {
	Rev   int64  `json:"rev"`
	State string `json:"state"` // closed | dirty | rebuilding
}

type EOp struct {
	K    string `json:"k"` // register | sigfail | dead | alive | start | startmulti
	Node int    `json:"node"`
	Alt  bool   `json:"alt,omitempty"`  // register from a changed address (same uuid)
	More []int  `json:"more,omitempty"` // extra addresses for startmulti
}

type ECase struct {
	// RealProbe: the controller's liveness probe of the elected replica is the
	// product's own (HTTP GET /ping with its time-out, lowered to 1 s); a dead
	// replica then is one whose /ping is not answered in time (a hung process),
	// not one that refuses the connection
	RealProbe bool `json:"realprobe,omitempty"`
	// ViaREST: registrations go through the product's controller client and the
	// controller's POST /v1/register handler instead of Controller.RegisterReplica
	ViaREST bool      `json:"viarest,omitempty"`
	RF      int       `json:"rf"`
	Specs   []RegSpec `json:"specs"`
	Ops     []EOp     `json:"ops"`
}

// prepareNodeState gives the node's directory the revision counter and state it reports.
func prepareNodeState(n *Node, sp RegSpec) error {
	if err := n.S.Open(); err != nil {
		return err
	}
	n.fixDrainer()
	if err := n.S.SetReplicaMode("RW"); err != nil {
		return err
	}
	if err := n.S.SetRevisionCounter(sp.Rev); err != nil {
		return err
	}
	switch sp.State {
	case "rebuilding":
		if err := n.S.SetRebuilding(true); err != nil {
			return err
		}
		fallthrough
	case "dirty":
		// abandon without a clean close: new server object on the same directory
		return n.Restart2Abandon()
	}
	return n.S.Close()
}

func runECase(ec ECase) (*Fail, []string, map[string]int, error) {
	labels := map[string]int{}
	st, err := NewStack(ec.RF, len(ec.Specs), 4*Blk)
	if err != nil {
		return nil, nil, nil, err
	}
	defer st.Destroy()
	SetStackTimeouts(sRW, sPing, 3600e9)
	if ec.RealProbe {
		st.Fac.ForwardAlive = true
		oldT := remote.VerifyReplicaAliveTimeout
		remote.VerifyReplicaAliveTimeout = time.Second
		defer func() { remote.VerifyReplicaAliveTimeout = oldT }()
		labels["real-liveness-probe"]++
	}
	if ec.ViaREST {
		labels["registration-via-rest"]++
	}
	if len(ec.Specs) > 0 && ec.Specs[0].Rev > 1<<31 {
		labels["revision-counts-beyond-2^31"]++
	}
	for i, sp := range ec.Specs {
		if err := prepareNodeState(st.Nodes[i], sp); err != nil {
			return nil, nil, nil, fmt.Errorf("prepare n%d: %v", i, err)
		}
	}
	var trace []string
	tr := func(f string, a ...interface{}) { trace = append(trace, fmt.Sprintf(f, a...)) }
	ipOf := func(i int, alt bool) string {
		if alt {
			return nodeIP(st.slot, 100+i) // an address nobody listens on
		}
		return st.Nodes[i].IP
	}
	idxOf := func(ip string) int {
		for i := range st.Nodes {
			if st.Nodes[i].IP == ip {
				return i
			}
		}
		return -1
	}
	dead := map[string]bool{}
	signalled := "" // latest successfully signalled address (ip)
	// model of the registrations (from the requests sent, not from the controller's
	// own map): address -> what it registered with; a replica that has been attached
	// and was detached since has to register again to count
	regModel := map[string]types.RegReplica{}
	deadEvents := 0
	consumed := map[string]bool{} // registrations of replicas that were seen attached since
	syncModel := func() {
		now := map[string]bool{}
		for _, r := range st.C.VerifState().Replicas {
			if nd := st.NodeByAddr(r.Address); nd != nil {
				now[nd.IP] = true
				consumed[nd.IP] = true
			}
		}
		for ip := range consumed {
			if !now[ip] {
				// it was attached and is gone again (removed, or dropped by the controller
				// by itself): it has to register again
				delete(regModel, ip)
				delete(consumed, ip)
				if len(now) == 0 {
					signalled = ""
				}
			}
		}
	}
	for oi, op := range ec.Ops {
		i := op.Node % len(ec.Specs)
		sp := ec.Specs[i]
		syncModel()
		switch op.K {
		case "sigfail":
			st.Fac.mu.Lock()
			st.Fac.SigErr[st.Nodes[i].IP]++
			st.Fac.mu.Unlock()
			tr("#%d sigfail n%d", oi, i)
		case "dead":
			if deadEvents >= 1 {
				continue // a dead leader costs 3 s of probing
			}
			deadEvents++
			st.Fac.mu.Lock()
			st.Fac.Dead[st.Nodes[i].IP] = true
			st.Fac.mu.Unlock()
			if ec.RealProbe {
				st.Nodes[i].SetPingHang(2500 * time.Millisecond)
			}
			dead[st.Nodes[i].IP] = true
			tr("#%d dead n%d", oi, i)
		case "alive":
			st.Fac.mu.Lock()
			delete(st.Fac.Dead, st.Nodes[i].IP)
			st.Fac.mu.Unlock()
			st.Nodes[i].SetPingHang(0)
			delete(dead, st.Nodes[i].IP)
			tr("#%d alive n%d", oi, i)
		case "register":
			ip := ipOf(i, op.Alt)
			attachedBefore := len(st.C.VerifState().Replicas)
			before := len(st.Fac.SignalsCopy())
			st.Fac.mu.Lock()
			failing := map[string]bool{}
			for a, nleft := range st.Fac.SigErr {
				if nleft > 0 {
					failing[a] = true
				}
			}
			st.Fac.mu.Unlock()
			reg := types.RegReplica{Address: ip, UUID: fmt.Sprintf("uuid-%d", i), RevCount: sp.Rev, RepType: "Backend", RepState: sp.State}
			var err error
			if ec.ViaREST {
				// the way a replica process registers; the REST reply carries no error:
				// what Controller.RegisterReplica returns (a failed start signal) is read off the signals
				if e := st.RegisterREST(reg); e != nil {
					return nil, nil, nil, fmt.Errorf("POST /v1/register: %v", e)
				}
				for _, sg := range st.Fac.SignalsCopy()[before:] {
					if sg.Err != nil {
						err = sg.Err
					}
				}
			} else {
				err = st.C.RegisterReplica(reg)
			}
			for a, r := range regModel {
				if r.UUID == reg.UUID && a != ip {
					delete(regModel, a) // the same replica registering from a new address
				}
			}
			regModel[ip] = reg
			deposed, leaderBefore := false, signalled
			if attachedBefore == 0 && signalled != "" && ip != signalled && dead[signalled] {
				deposed = true
				// the replica that was asked to start does not answer any more: its
				// registration lapses (it is not a reachable replica) and it has to register again
				delete(regModel, signalled)
			}
			vs := st.C.VerifState()
			sigs := st.Fac.SignalsCopy()[before:]
			tr("#%d register n%d ip=%s rev=%d state=%s -> err=%v signals=%v registered=%v leader=%s", oi, i, ip, sp.Rev, sp.State, err, fmtSignals(sigs), regKeys(vs.Registered), vs.MaxRevReplica)
			labels["register"]++
			if deposed {
				// the elected replica gave no sign of life and another replica has just
				// registered: the dead one is dropped and, if the replicas that are
				// registered and reachable still form a majority, one of them is asked now
				reachable := 0
				for a, r := range regModel {
					if !dead[a] && idxOf(a) >= 0 && r.RepState != "rebuilding" {
						reachable++
					}
				}
				asked := false
				for _, sg := range sigs {
					if sg.Action == "start" && !dead[sg.Addr] {
						asked = true
					}
				}
				labels["dead-leader-deposed"]++
				// (a registration in state rebuilding is only recorded: it elects nobody)
				if len(regModel) >= ec.RF/2+1 && reachable > 0 && !asked && err == nil && reg.RepState != "rebuilding" {
					return fail("election|dead-leader-not-replaced", fmt.Sprintf("%s was asked to start and does not answer any more; %s registered, %d registered replicas (%d reachable, not rebuilding) of RF=%d - nobody was asked to start the volume (leader now %q)", leaderBefore, ip, len(regModel), reachable, ec.RF, vs.MaxRevReplica), "C09"), trace, labels, nil
				}
			}
			for _, sg := range sigs {
				if sg.Action != "start" {
					continue
				}
				labels["start-signal"]++
				if attachedBefore > 0 {
					return fail("election|signal-while-attached", fmt.Sprintf("a start signal was sent to %s although %d replicas are attached", sg.Addr, attachedBefore), "C09"), trace, labels, nil
				}
				// S1: majority registered. The registered set at signal time is at
				// least the current one plus the target if it was dropped afterwards.
				regNow := map[string]types.RegReplica{}
				for k, v := range regModel {
					regNow[k] = v
				}
				nreg := len(regNow)
				if nreg < ec.RF/2+1 {
					return fail("election|signal-before-majority", fmt.Sprintf("start signal to %s with %d of RF=%d replicas registered (%v; the controller's own list: %v)", sg.Addr, nreg, ec.RF, regKeys(regNow), regKeys(vs.Registered)), "C09"), trace, labels, nil
				}
				if sg.Err != nil {
					labels["start-signal-failed"]++
					// it could not be reached: its registration lapses
					delete(regModel, sg.Addr)
					continue
				}
				// S2: a successful signal's target is the most up to date among
				// the registered, reachable, non-rebuilding replicas
				tgt, ok := regNow[sg.Addr]
				if !ok {
					return fail("election|signalled-unregistered", fmt.Sprintf("start signal to %s which is not registered (%v)", sg.Addr, regKeys(regNow)), "C09"), trace, labels, nil
				}
				if tgt.RepState == "rebuilding" {
					return fail("election|signalled-rebuilding", fmt.Sprintf("start signal to %s which registered in state rebuilding", sg.Addr), "C09"), trace, labels, nil
				}
				for a, r := range regNow {
					if sg.Addr == signalled {
						break // the earlier pick is signalled again (it re-registered): not a new election
					}
					if a == sg.Addr || r.RepState == "rebuilding" || dead[a] || failing[a] {
						continue
					}
					if idxOf(a) < 0 {
						continue // registered from an address nobody listens on: not reachable
					}
					if r.RevCount > tgt.RevCount {
						return fail("election|stale-leader", fmt.Sprintf("start signal to %s (revision %d) although %s (revision %d, state %s) is registered and reachable; registered: %s",
							sg.Addr, tgt.RevCount, a, r.RevCount, r.RepState, fmtReg(regNow)), "C09"), trace, labels, nil
					}
				}
				signalled = sg.Addr
				labels["start-signal-ok"]++
			}
		case "down":
			// every attached replica goes away (its process dies; the controller
			// keeps running): the volume is down and has to be bootstrapped again
			vs := st.C.VerifState()
			if len(vs.Replicas) == 0 {
				continue
			}
			for _, r := range vs.Replicas {
				nd := st.NodeByAddr(r.Address)
				if err := st.C.RemoveReplica(r.Address); err != nil {
					return fail("election|remove-failed", err.Error(), "C18"), trace, labels, nil
				}
				if nd != nil {
					// the replica process exits when its data connection ends and is started again
					if err := nd.Restart(); err != nil {
						return nil, nil, nil, fmt.Errorf("restart of %s: %v", nd.Name, err)
					}
					delete(regModel, nd.IP)
				}
			}
			signalled = ""
			labels["volume-down"]++
			// the monitor goroutine of a removed backend removes "its" address once more
			// when it wakes up (DESIGN 7.3: it is keyed by address); let it finish before
			// the same replicas come back, or it takes the new incarnation down again
			time.Sleep(400 * time.Millisecond)
			tr("#%d down: %d replicas removed; registrations left: %v (controller: %v)", oi, len(vs.Replicas), regKeys(regModel), regKeys(st.C.VerifState().Registered))
		case "start", "startmulti":
			n := st.Nodes[i]
			addrs := []string{n.Addr}
			if op.K == "startmulti" {
				for _, m := range op.More {
					m = m % len(ec.Specs)
					if m != i {
						addrs = append(addrs, st.Nodes[m].Addr)
					}
				}
			}
			attachedBefore := len(st.C.VerifState().Replicas)
			err := st.C.Start(addrs...)
			vs := st.C.VerifState()
			tr("#%d start %v -> err=%v attached=%v (signalled=%s)", oi, addrs, err, vs.Replicas, signalled)
			if attachedBefore > 0 {
				continue
			}
			if len(addrs) > ec.RF {
				// more replicas than the volume is configured for: refused as a whole
				labels["start-with-more-than-RF-addresses"]++
				if err == nil || len(vs.Replicas) > 0 {
					return fail("bookkeeping|more-than-RF|after="+op.K, fmt.Sprintf("Start(%v) with RF=%d -> err=%v, %d replicas listed: %v", addrs, ec.RF, err, len(vs.Replicas), vs.Replicas), "C18"), trace, labels, nil
				}
				continue
			}
			if err != nil && len(vs.Replicas) == 0 {
				// a start that failed half-way detaches what it had attached: those
				// replicas were attached and are gone again - they have to register anew
				for _, a := range addrs {
					if nd := st.NodeByAddr(a); nd != nil {
						if _, still := vs.Registered[nd.IP]; !still {
							delete(regModel, nd.IP)
						}
					}
				}
			}
			started := len(vs.Replicas) > 0
			if started {
				labels["volume-started"]++
				// S3: only the signalled replica can start the volume
				if n.IP != signalled {
					return fail("election|started-by-unsignalled", fmt.Sprintf("Start(%s) started the volume although the start signal went to %q", n.Addr, signalled), "C09"), trace, labels, nil
				}
				// S4: replicas with a lower revision count are not used for reads
				var maxRev int64
				revs := map[string]int64{}
				for _, a := range addrs {
					nd := st.NodeByAddr(a)
					rv, _ := nd.S.GetRevisionCounter()
					revs[a] = rv
					if rv > maxRev {
						maxRev = rv
					}
				}
				upToDate := 0
				for _, r := range vs.Replicas {
					if revs[r.Address] == maxRev && r.Mode == types.RW {
						upToDate++
					}
				}
				for _, r := range vs.Replicas {
					if revs[r.Address] < maxRev && r.Mode == types.RW {
						props := []string{"C09", "C04"}
						detail := fmt.Sprintf("%s has revision %d < %d but is RW after start: %v", r.Address, revs[r.Address], maxRev, vs.Replicas)
						if !vs.ReadOnly && upToDate < ec.RF/2+1 {
							// the stale replica is counted as up to date: the volume accepts writes below its quorum
							props = append(props, "C03")
							detail += fmt.Sprintf("; the volume is writable (ReadOnly=false, RWReplicaCount=%d) although only %d of RF=%d replicas are up to date", vs.RWReplicaCount, upToDate, ec.RF)
						}
						return fail("election|stale-replica-readable", detail, props...), trace, labels, nil
					}
				}
				if len(addrs) > 1 {
					labels["multi-start"]++
				}
				// reads must come from max-revision replicas only
				buf := make([]byte, Blk)
				before := map[string]int{}
				for _, nd := range st.Nodes {
					before[nd.Addr] = nd.LogLen("read")
				}
				for k := 0; k < 2*len(addrs); k++ {
					st.C.ReadAt(buf, 0)
				}
				for _, nd := range st.Nodes {
					if nd.LogLen("read") != before[nd.Addr] && revs[nd.Addr] < maxRev {
						return fail("election|stale-replica-served-read", fmt.Sprintf("%s (revision %d < %d) served a read", nd.Addr, revs[nd.Addr], maxRev), "C09", "C04"), trace, labels, nil
					}
				}
			} else if err == nil && n.IP == signalled {
				// nothing attached and no error: only legitimate when nothing was asked
			}
			if !started && n.IP == signalled && err != nil && st.Nodes[i].S.Replica() == nil && !strings.Contains(err.Error(), "Signalled replica") {
				// the signalled, closed replica could not start the volume
				return fail("election|signalled-replica-cannot-start", fmt.Sprintf("Start(%s) by the signalled replica failed: %v", n.Addr, err), "C09"), trace, labels, nil
			}
		}
		if m := takeFatal(); m != "" {
			return fail("election|process-exit", m, "C09", "C14"), trace, labels, nil
		}
		// the bookkeeping agrees with itself after every step of a bootstrap, failed or not (C18)
		{
			vs := st.C.VerifState()
			nrw := 0
			seen := map[string]bool{}
			for _, r := range vs.Replicas {
				if seen[r.Address] {
					return fail("bookkeeping|duplicate-address|after="+op.K, fmt.Sprintf("%v", vs.Replicas), "C18"), trace, labels, nil
				}
				seen[r.Address] = true
				if r.Mode == types.RW {
					nrw++
				}
				if m, ok := vs.Backends[r.Address]; !ok || m != r.Mode {
					return fail("bookkeeping|backend-mode|after="+op.K, fmt.Sprintf("list %v, backends %v", vs.Replicas, vs.Backends), "C18"), trace, labels, nil
				}
			}
			if len(vs.Backends) != len(vs.Replicas) {
				return fail("bookkeeping|backends-vs-list|after="+op.K, fmt.Sprintf("list %v, backends %v", vs.Replicas, vs.Backends), "C18"), trace, labels, nil
			}
			if len(vs.Replicas) > ec.RF {
				return fail("bookkeeping|more-than-RF|after="+op.K, fmt.Sprintf("%d replicas listed, RF=%d", len(vs.Replicas), ec.RF), "C18"), trace, labels, nil
			}
			if vs.RWReplicaCount != nrw {
				return fail("bookkeeping|rw-count|after="+op.K, fmt.Sprintf("RWReplicaCount=%d but %d RW entries: %v", vs.RWReplicaCount, nrw, vs.Replicas), "C18", "C03"), trace, labels, nil
			}
			if wantRO := nrw < ec.RF/2+1; vs.ReadOnly != wantRO && len(vs.Replicas) > 0 {
				return fail("readonly|stale|after="+op.K, fmt.Sprintf("ReadOnly=%v with %d RW of RF=%d (%v)", vs.ReadOnly, nrw, ec.RF, vs.Replicas), "C03"), trace, labels, nil
			}
		}
	}
	return nil, trace, labels, nil
}

func fmtSignals(s []Signal) string {
	var o []string
	for _, x := range s {
		o = append(o, fmt.Sprintf("%s:%s:%v", x.Addr, x.Action, x.Err == nil))
	}
	return strings.Join(o, ",")
}

func regKeys(m map[string]types.RegReplica) []string {
	var k []string
	for a := range m {
		k = append(k, a)
	}
	sort.Strings(k)
	return k
}

func fmtReg(m map[string]types.RegReplica) string {
	var o []string
	for _, a := range regKeys(m) {
		o = append(o, fmt.Sprintf("%s(rev %d,%s)", a, m[a].RevCount, m[a].RepState))
	}
	return strings.Join(o, " ")
}

func genECase(t *rapid.T) ECase {
	rf := rapid.SampledFrom([]int{1, 2, 3, 3, 4, 5, 5}).Draw(t, "rf")
	n := rapid.IntRange(max(1, rf-1), rf+1).Draw(t, "nodes")
	ec := ECase{RF: rf, RealProbe: rapid.IntRange(0, 2).Draw(t, "realprobe") == 0}
	ec.ViaREST = rapid.Bool().Draw(t, "viarest")
	// revision counts of a young volume, of one around and beyond 2^31 and 2^32 writes, and of 2^62
	base := rapid.SampledFrom([]int64{0, 0, 0, 1<<31 - 6, 1<<32 - 6, 3000000000, 1 << 40, 1 << 62}).Draw(t, "revbase")
	for i := 0; i < n; i++ {
		ec.Specs = append(ec.Specs, RegSpec{
			Rev:   base + rapid.Int64Range(1, 12).Draw(t, "rev"),
			State: rapid.SampledFrom([]string{"closed", "closed", "closed", "dirty", "rebuilding"}).Draw(t, "state"),
		})
	}
	if n >= 2 && rapid.IntRange(0, 4).Draw(t, "latecomer") == 0 {
		// the most up-to-date replica registers last, after somebody else has been
		// elected; then every replica in turn tries a start that also names the latecomer:
		// only the elected one may start, and the stale ones among those it names are not used for reads
		h := 0
		for i, sp := range ec.Specs {
			if sp.State != "rebuilding" && (ec.Specs[h].State == "rebuilding" || sp.Rev > ec.Specs[h].Rev) {
				h = i
			}
		}
		for _, i := range rapid.Permutation(seqInts(n)).Draw(t, "orderL") {
			if i != h {
				ec.Ops = append(ec.Ops, EOp{K: "register", Node: i})
			}
		}
		ec.Ops = append(ec.Ops, EOp{K: "register", Node: h})
		// in a third of these cases the latecomer is named twice: the elected replica's
		// start fails on the repeated address after the earlier ones were attached -
		// nothing may stay attached or counted
		more := []int{h}
		if rf >= 3 && rapid.IntRange(0, 2).Draw(t, "twice") == 0 {
			more = []int{h, h}
		}
		for _, i := range rapid.Permutation(seqInts(n)).Draw(t, "starters") {
			if i != h {
				ec.Ops = append(ec.Ops, EOp{K: "startmulti", Node: i, More: more})
			}
		}
		return ec
	}
	if rapid.Bool().Draw(t, "scenario") {
		// structured: everybody registers, something happens to the elected one, registrations continue
		for _, i := range rapid.Permutation(seqInts(n)).Draw(t, "order1") {
			ec.Ops = append(ec.Ops, EOp{K: "register", Node: i})
		}
		// the current best non-rebuilding replica
		best := 0
		for i, sp := range ec.Specs {
			if sp.State != "rebuilding" && (ec.Specs[best].State == "rebuilding" || sp.Rev > ec.Specs[best].Rev) {
				best = i
			}
		}
		switch rapid.IntRange(0, 3).Draw(t, "event") {
		case 0:
			ec.Ops = append(ec.Ops, EOp{K: "sigfail", Node: best}, EOp{K: "register", Node: best})
		case 1:
			ec.Ops = append(ec.Ops, EOp{K: "dead", Node: best})
		case 2:
			ec.Ops = append(ec.Ops, EOp{K: "register", Node: best})
		default:
			ec.Ops = append(ec.Ops, EOp{K: "sigfail", Node: best}, EOp{K: "sigfail", Node: best}, EOp{K: "register", Node: best}, EOp{K: "register", Node: best})
		}
		for _, i := range rapid.Permutation(seqInts(n)).Draw(t, "order2") {
			ec.Ops = append(ec.Ops, EOp{K: "register", Node: i})
			if rapid.IntRange(0, 3).Draw(t, "startnow") == 0 {
				ec.Ops = append(ec.Ops, EOp{K: "start", Node: rapid.IntRange(0, n-1).Draw(t, "starter")})
			}
		}
		ec.Ops = append(ec.Ops, EOp{K: "start", Node: best})
		if rapid.Bool().Draw(t, "secondlife") {
			// the volume goes down while the controller keeps running and is
			// bootstrapped a second time: replicas come back one by one
			if rapid.Bool().Draw(t, "others") {
				for _, i := range rapid.Permutation(seqInts(n)).Draw(t, "order3") {
					if i != best && rapid.Bool().Draw(t, "joins") {
						ec.Ops = append(ec.Ops, EOp{K: "startmulti", Node: best, More: []int{i}})
					}
				}
			}
			ec.Ops = append(ec.Ops, EOp{K: "down"})
			for _, i := range rapid.Permutation(seqInts(n)).Draw(t, "order4") {
				ec.Ops = append(ec.Ops, EOp{K: "register", Node: i})
				if rapid.IntRange(0, 2).Draw(t, "startnow2") == 0 {
					ec.Ops = append(ec.Ops, EOp{K: "start", Node: i})
				}
			}
		}
		return ec
	}
	nops := rapid.IntRange(2, 16).Draw(t, "nops")
	for len(ec.Ops) < nops {
		k := rapid.SampledFrom([]string{"register", "register", "register", "register", "start", "start", "startmulti", "sigfail", "dead", "alive", "down"}).Draw(t, "op")
		op := EOp{K: k, Node: rapid.IntRange(0, n-1).Draw(t, "node")}
		if k == "register" {
			op.Alt = rapid.IntRange(0, 9).Draw(t, "alt") == 0
		}
		if k == "startmulti" {
			op.More = rapid.SliceOfN(rapid.IntRange(0, n-1), 1, 3).Draw(t, "more")
		}
		ec.Ops = append(ec.Ops, op)
	}
	return ec
}

func max(a, b int) int {
	if a > b {
		return a
	}
	return b
}

// runElectionProperty drives the scripted bootstrap programs for one property:
// C09 (election safety) or C18 (the bookkeeping after every step of a bootstrap).
func runElectionProperty(t *testing.T, prop, test string) {
	rec := NewRecorder(prop, test)
	defer rec.Flush(t)
	run := func(ec ECase, fatalf func(string, ...interface{})) {
		f, trace, labels, err := runECase(ec)
		if err != nil {
			fatalf("HARNESS ERROR: %v", err)
			return
		}
		var ls []string
		for k := range labels {
			ls = append(ls, k)
		}
		ls = append(ls, fmt.Sprintf("rf:%d", ec.RF))
		rec.Case(ec, labels["start-signal-ok"] > 0 && labels["register"] >= 2, ls...)
		if f != nil {
			detail := f.Detail + "\ntrace:\n  " + strings.Join(tail(trace, 30), "\n  ")
			if !f.Has(prop) {
				rec.Label("crossfinding:"+strings.Join(f.Props, "+")+":"+f.Sig, 1)
				rec.Cross(f.String()+"\n"+detail, ec)
				return
			}
			if rec.Fail(prop, prop+"|"+f.Sig, detail, ec) {
				return
			}
			fatalf("VIOLATION %s %s: %s", prop, f.Sig, detail)
		}
	}
	var rp ECase
	if isReplay, err := LoadReplay(&rp); isReplay {
		if err != nil || len(rp.Specs) == 0 {
			t.Skip("replay file is for another test")
		}
		run(rp, t.Fatalf)
		return
	}
	if firstShard() {
		for _, rf := range regressFiles(test) {
			var c ECase
			if err := loadCaseFile(rf, &c); err != nil {
				t.Fatalf("HARNESS ERROR: bad regression file %s: %v", rf, err)
			}
			rec.Label("regress-replayed", 1)
			run(c, t.Fatalf)
		}
	}
	checkBudget(t, func(rt *rapid.T) { run(genECase(rt), rt.Fatalf) })
}

// TestC09 — bootstrap elects the most up-to-date replica after a majority registered.
func TestC09(t *testing.T) { runElectionProperty(t, "C09", "TestC09") }

// TestC04Bootstrap — after a (multi-address) start only replicas with the highest
// revision count are RW and serve reads.
func TestC04Bootstrap(t *testing.T) { runElectionProperty(t, "C04", "TestC04Bootstrap") }

// TestC03Bootstrap — a start never leaves the volume writable with fewer than a
// quorum of up-to-date replicas (a stale replica kept RW counts towards it), and
// the read-only status follows every step of a bootstrap.
func TestC03Bootstrap(t *testing.T) { runElectionProperty(t, "C03", "TestC03Bootstrap") }

// TestC18Bootstrap — the membership bookkeeping stays consistent through
// registrations, failed and multi-address starts and a second bootstrap.
func TestC18Bootstrap(t *testing.T) { runElectionProperty(t, "C18", "TestC18Bootstrap") }

// TestC09EndToEnd is filled in below (c09_e2e_test.go).
