"""Per-property run plans for ./check (tests, shards, case counts, budgets)."""

ENGINE_ASSUME = [
    "ext4 scratch file system with FIEMAP, O_DIRECT, punch-hole and SEEK_DATA/SEEK_HOLE (the harness refuses to run otherwise)",
    "verif-tagged hooks only expose state or shorten polling intervals; one shard per run uses the unmodified 1 s hole drainer",
    "the reference model (byte array per volume, snapshot tree, counter) is the specification of the statement",
]

HOOK_COMMITS = ["207740b", "bd99653", "1c0910e", "2a65ab3"]

NOT_APPLICABLE = {}

PLAN = {
    "C01": {
        "level": "exploration",
        "rule": ("rapid-generated op programs (write shapes by class, read, snapshot user/auto, cleaner-style removal, revert, "
                 "reopen/reload with and without preload, punching on/off, RW/WO, unmap, resize) run against the real replica.Server "
                 "and a byte-array model, full read compared after every step; non-trivial = >=1 snapshot, >=1 write after it and a "
                 "removal/reopen/reload/revert; distinct = FNV hash of the op program"),
        "assumptions": ENGINE_ASSUME,
        "quick": {"wall": 120, "tests": [
            {"run": "TestC01", "shards": 14, "checks": 120, "timeout": 100, "real_drainer_shards": 0},
            {"run": "TestC01", "shards": 1, "checks": 6, "timeout": 100, "real_drainer_shards": 1},
        ]},
        "thorough": {"wall": 900, "tests": [
            {"run": "TestC01", "shards": 14, "checks": 3000, "timeout": 840},
            {"run": "TestC01", "shards": 2, "checks": 60, "timeout": 840, "real_drainer_shards": 2},
        ]},
    },

}

def _engine(pid, test, rule, quick_checks=100, thorough_checks=2500, real_quick=5, real_thorough=50):
    PLAN[pid] = {
        "level": "exploration", "rule": rule, "assumptions": ENGINE_ASSUME,
        "quick": {"wall": 120, "tests": [
            {"run": test, "shards": 14, "checks": quick_checks, "timeout": 100},
            {"run": test, "shards": 1, "checks": real_quick, "timeout": 100, "real_drainer_shards": 1},
        ]},
        "thorough": {"wall": 900, "tests": [
            {"run": test, "shards": 14, "checks": thorough_checks, "timeout": 840},
            {"run": test, "shards": 2, "checks": real_thorough, "timeout": 840, "real_drainer_shards": 2},
        ]},
    }

_engine("C06", "TestC06",
        "op programs biased to punching on (80%), user snapshots followed by automatic snapshots and multi-block overwrites, "
        "reopen with preload, UpdateLUNMap, unmap, removals; every retained user snapshot is re-read after every step by an "
        "independent on-disk chain reader and, at the end of the case, by revert on an extent-exact copy; non-trivial = punching on, "
        ">=1 user snapshot and a later write; distinct = FNV hash of the program")
_engine("C10", "TestC10",
        "op programs with RW/WO mode switches, zero-length/unaligned writes, SetRevisionCounter, snapshots, removals, reverts, reopen; "
        "GetRevisionCounter compared with the counter model after every step and after reopen; non-trivial = >=2 writes and a WO phase or a reopen")
_engine("C11", "TestC11",
        "op programs biased to long chains (user/auto snapshots, mark-removed, checkpoint at the latest snapshot or withdrawn), "
        "cleaner-style deletion (GetDeleteCandidateChain -> PrepareRemoveDisk -> sparse.FoldFile -> RemoveDiffDisk) with any candidate, "
        "direct requests against head/latest/base/unknown; candidate list checked against the statement's validity predicate, "
        "live image and retained user snapshots compared after every step; non-trivial = >=1 successful deletion")
_engine("C12", "TestC12",
        "management-heavy op programs (fresh/duplicate/over-long snapshots, remove, mark-removed, revert to valid/unknown names, "
        "resize grow/equal/shrink/garbage, set-checkpoint, wrong mode) with reopen in between; after every step Chain(), files on disk, "
        "ListDisks attributes, volume.meta compared with the model (unchanged on refusal); non-trivial = >=1 refused request and >=2 snapshots")
_engine("C16", "TestC16",
        "op programs with resize (grow by 1-32 blocks, equal, shrink, unparsable) interleaved with writes, snapshots, removals, reopen; "
        "old bytes and every retained snapshot unchanged, new range zero and writable, Info().Size, every chain file length and "
        "volume.meta size equal the new size, also after reopen; non-trivial = >=1 accepted grow after a write and a snapshot")

PLAN["C15"] = {
    "level": "exploration",
    "rule": ("(a) generated frames (all ten types and arbitrary ones, offsets/sizes over the int64 range, payload 0-256 KiB around the 8096-byte "
             "buffer boundaries) through rpc.Wire.Write -> bytes -> rpc.Wire.Read, compared field by field and byte-for-byte with an independent "
             "reference encoder/decoder; (b) the real rpc.Client on loopback TCP against a scripted peer: 1-64 concurrent read/write/sync/unmap/ping, "
             "replies in a generated permutation with generated reply types, duplicate and unknown sequence numbers injected, every call must get the "
             "reply scripted for its own request; (c) failure scripts: stall (short deadline for the stalled type only, 25 s for all others), close, "
             "half-close, bad magic, truncated frame at a generated point - pending calls fail within 9 s, later calls within 1 s, the close channel is "
             "notified; non-trivial = frames with payload beyond one buffer / negative offset / unknown type, scripts with >=2 concurrent calls"),
    "assumptions": ["deadlines are shortened through the verif hook rpc.VerifSetTimeouts; loopback TCP stands for the replica connection",
                    "the reference codec was written from the documented frame layout, not derived from rpc/wire.go"],
    "technique": "property-based testing (rapid): round-trip + differential codec, scripted-peer model of the RPC client",
    "quick": {"wall": 150, "tests": [
        {"run": "TestC15Frames", "shards": 2, "checks": 1500, "timeout": 100},
        {"run": "TestC15Matching", "shards": 4, "checks": 250, "timeout": 100},
        {"run": "TestC15Failure", "shards": 10, "checks": 12, "timeout": 120, "shrink": "30s"},
    ]},
    "thorough": {"wall": 900, "tests": [
        {"run": "TestC15Frames", "shards": 2, "checks": 40000, "timeout": 800},
        {"run": "TestC15Matching", "shards": 4, "checks": 6000, "timeout": 800},
        {"run": "TestC15Failure", "shards": 10, "checks": 200, "timeout": 800, "shrink": "60s"},
    ]},
}
