package harness

import (
	"fmt"
	"math"
	"strings"
	"testing"

	"pgregory.net/rapid"
)

// RangeOp is one controller-level I/O of the range-check cases (bytes).
type RangeOp struct {
	Write bool  `json:"write"`
	Off   int64 `json:"off"`
	Len   int64 `json:"len"`
	Seed  int   `json:"seed"`
}

type RangeCase struct {
	RF     int       `json:"rf"`
	Blocks int       `json:"blocks"`
	Ops    []RangeOp `json:"ops"`
}

func genRangeCase(t *rapid.T) RangeCase {
	rc := RangeCase{RF: rapid.SampledFrom([]int{1, 1, 2, 3}).Draw(t, "rf"), Blocks: rapid.IntRange(4, 16).Draw(t, "blocks")}
	size := int64(rc.Blocks) * Blk
	n := rapid.IntRange(3, 20).Draw(t, "nops")
	for i := 0; i < n; i++ {
		op := RangeOp{Write: rapid.Bool().Draw(t, "write"), Seed: rapid.IntRange(1, 200).Draw(t, "seed")}
		op.Len = rapid.SampledFrom([]int64{512, 1024, 4096, 4608, 8192}).Draw(t, "len")
		switch rapid.IntRange(0, 9).Draw(t, "class") {
		case 0, 1, 2: // inside
			op.Off = rapid.Int64Range(0, size/Sec-op.Len/Sec).Draw(t, "sec") * Sec
		case 3: // ends exactly at the end
			op.Off = size - op.Len
		case 4: // crosses the end
			op.Off = size - op.Len + rapid.SampledFrom([]int64{512, 1024, op.Len - 512}).Draw(t, "over")
		case 5: // starts at the end
			op.Off = size
		case 6: // far beyond
			op.Off = size + rapid.Int64Range(1, 1<<40).Draw(t, "beyond")*Sec
		case 7: // negative
			op.Off = -rapid.Int64Range(1, 1<<30).Draw(t, "neg") * Sec
		case 8: // offset + length overflows int64
			op.Off = math.MaxInt64 - rapid.Int64Range(0, op.Len-1).Draw(t, "ovf")
		case 9: // negative, ending inside
			op.Off = -512
		}
		rc.Ops = append(rc.Ops, op)
	}
	return rc
}

func runRangeCase(rc RangeCase) (*Fail, []string, map[string]int, error) {
	labels := map[string]int{}
	x, err := NewSExec(SProgram{RF: rc.RF, Nodes: rc.RF, Blocks: rc.Blocks, Init: rc.RF})
	if err != nil {
		return nil, nil, nil, err
	}
	defer x.Destroy()
	if f := x.Init(); f != nil {
		return nil, nil, nil, fmt.Errorf("bring-up: %s", f)
	}
	st := x.St
	size := int64(rc.Blocks) * Blk
	for i, op := range rc.Ops {
		inRange := op.Off >= 0 && op.Len <= size && op.Off <= size-op.Len
		before := 0
		for _, n := range st.Nodes {
			before += n.LogLen("read", "write")
		}
		var n int
		var err error
		var data []byte
		if op.Write {
			data = payload(i, op.Seed, op.Off&0xfffff, op.Len)
			n, err = st.C.WriteAt(data, op.Off)
		} else {
			data = make([]byte, op.Len)
			n, err = st.C.ReadAt(data, op.Off)
		}
		after := 0
		for _, nd := range st.Nodes {
			after += nd.LogLen("read", "write")
		}
		kind := map[bool]string{true: "write", false: "read"}[op.Write]
		x.tracef("%s off=%d len=%d inRange=%v -> n=%d err=%v", kind, op.Off, op.Len, inRange, n, err)
		if inRange {
			labels["in-range"]++
			if err != nil || int64(n) != op.Len {
				return fail("range|in-range|"+kind+"|refused", fmt.Sprintf("%s off=%d len=%d inside a volume of %d bytes: n=%d err=%v", kind, op.Off, op.Len, size, n, err), "C01"), x.Trace, labels, nil
			}
			if op.Write {
				x.Live.Write(op.Off, data)
			} else if d := x.Live.Diff(data, op.Off); d != "" {
				return fail("range|in-range|read-mismatch", d, "C01"), x.Trace, labels, nil
			}
			if op.Off+op.Len == size {
				labels["edge:ends-at-size"]++
			}
			continue
		}
		labels["out-of-range"]++
		if err == nil {
			return fail("range|out-of-range|"+kind+"|accepted", fmt.Sprintf("%s off=%d len=%d on a volume of %d bytes was not rejected (n=%d)", kind, op.Off, op.Len, size, n), "C01"), x.Trace, labels, nil
		}
		if after != before {
			return fail("range|out-of-range|"+kind+"|reached-replica", fmt.Sprintf("%s off=%d len=%d on a volume of %d bytes was rejected (%v) but reached a replica", kind, op.Off, op.Len, size, err), "C01"), x.Trace, labels, nil
		}
		if got := len(st.C.VerifState().Replicas); got != rc.RF {
			return fail("range|out-of-range|"+kind+"|membership-changed", fmt.Sprintf("%s off=%d len=%d: %d replicas listed afterwards, %d before", kind, op.Off, op.Len, got, rc.RF), "C01", "C05"), x.Trace, labels, nil
		}
	}
	// nothing changed outside what the in-range writes did
	for j, nd := range st.Nodes {
		buf := make([]byte, size)
		if _, err := nd.S.ReadAt(buf, 0); err != nil {
			return fail("range|replica-unreadable", err.Error(), "C01"), x.Trace, labels, nil
		}
		if d := x.Live.Diff(buf, 0); d != "" {
			return fail("range|image-changed", fmt.Sprintf("n%d: %s", j, d), "C01"), x.Trace, labels, nil
		}
	}
	return nil, x.Trace, labels, nil
}

// TestC01Range — I/O outside [0, volume size) is rejected by the controller and changes nothing.
func TestC01Range(t *testing.T) {
	rec := NewRecorder("C01", "TestC01Range")
	defer rec.Flush(t)
	run := func(rc RangeCase, fatalf func(string, ...interface{})) {
		f, trace, labels, err := runRangeCase(rc)
		if err != nil {
			fatalf("HARNESS ERROR: %v", err)
			return
		}
		var ls []string
		for k := range labels {
			ls = append(ls, k)
		}
		rec.Case(rc, labels["out-of-range"] > 0 && labels["in-range"] > 0, ls...)
		if f != nil {
			detail := f.Detail + "\ntrace:\n  " + strings.Join(tail(trace, 30), "\n  ")
			if rec.Fail("C01", "C01|"+f.Sig, detail, rc) {
				return
			}
			fatalf("VIOLATION C01 %s: %s", f.Sig, detail)
		}
	}
	var rp RangeCase
	if isReplay, err := LoadReplay(&rp); isReplay {
		if err != nil || rp.RF == 0 {
			t.Skip("replay file is for another C01 test")
		}
		run(rp, t.Fatalf)
		return
	}
	if firstShard() {
		for _, rf := range regressFiles("TestC01Range") {
			var c RangeCase
			if err := loadCaseFile(rf, &c); err != nil {
				t.Fatalf("HARNESS ERROR: bad regression file %s: %v", rf, err)
			}
			rec.Label("regress-replayed", 1)
			run(c, t.Fatalf)
		}
	}
	checkBudget(t, func(rt *rapid.T) { run(genRangeCase(rt), rt.Fatalf) })
}
