package harness

import (
	"bufio"
	"encoding/json"
	"fmt"
	"io"
	"os"
	"os/exec"
	"path/filepath"
	"regexp"
	"runtime"
	"strconv"
	"strings"
	"syscall"
	"time"

	"github.com/openebs/jiva/replica"
	"github.com/openebs/jiva/types"
	"github.com/openebs/sparse-tools/sparse"
	"github.com/sirupsen/logrus"
)

// VictimOp is a fully resolved replica-directory operation executed by the
// victim process (no selectors: the parent resolved them against the model).
type VictimOp struct {
	K       string `json:"k"`              // write snap markrm remove revert resize setcp setrebuilding setclonestatus setrev close open
	Off     int64  `json:"off,omitempty"`  // bytes
	Len     int64  `json:"len,omitempty"`  // bytes
	Seed    int    `json:"seed,omitempty"` // payload seed
	Idx     int    `json:"idx,omitempty"`  // payload op index
	Name    string `json:"name,omitempty"`
	User    bool   `json:"user,omitempty"`
	N       int64  `json:"n,omitempty"`
	On      bool   `json:"on,omitempty"`
	Preload bool   `json:"preload,omitempty"`
	Mode    string `json:"mode,omitempty"` // replica mode to set after open (RW/WO)
	// Then is a follow-up the victim performs on the same replica object after
	// the operation under test has returned (whatever it returned): "" | close |
	// touchmeta (SetRebuilding(false): rewrites volume.meta without changing
	// anything the model tracks) | touchclose. An injected fault is transient (one
	// call fails once), so the follow-up runs on a healthy file system: state that
	// a failed operation left behind in memory must not reach the disk through it.
	Then string `json:"then,omitempty"`
	// Next: for Then == "removenext" the snapshot (disk name) the victim removes
	// next on the same replica object - the way the cleaner goes on to the next
	// candidate after a removal that failed - before it closes the replica
	Next string `json:"next,omitempty"`
	// Punch: the victim runs with space reclamation on (as a started replica does):
	// duplicates of overwritten blocks are punched out of snapshot files by the
	// CreateHoles goroutine, at write time and by the preload of an open
	Punch bool `json:"punch,omitempty"`
	// PreRebuilding: the victim sets the rebuilding flag (outside the traced window) before the operation
	PreRebuilding bool `json:"prerebuilding,omitempty"`
}

const (
	markBegin = "/verif-marker-begin"
	markEnd   = "/verif-marker-end"
)

func init() {
	// Locking in init keeps the main goroutine on the process's main thread
	// (a later LockOSThread would pin it to whatever thread it happens to run on).
	if os.Getenv("VERIF_CHILD") == "victim" {
		runtime.LockOSThread()
	}
}

// victimMain runs in the re-executed test binary (VERIF_CHILD=victim). The
// main goroutine is wired to the main thread so that the file-system calls of
// the operation appear on one thread in a deterministic order.
func victimMain() int {
	runtime.LockOSThread()
	logrus.SetOutput(io.Discard)
	logrus.SetLevel(logrus.PanicLevel)
	var op VictimOp
	if err := json.Unmarshal([]byte(os.Getenv("VERIF_VICTIM_OP")), &op); err != nil {
		fmt.Println("RESULT harness-error bad op:", err)
		return 3
	}
	dir := os.Getenv("VERIF_VICTIM_DIR")
	types.MaxChainLength = envInt("VERIF_VICTIM_MAXCHAIN", 0)
	types.ShouldPunchHoles = op.Punch
	go replica.CreateHoles()
	s := replica.NewServer("127.0.0.1:9502", dir, 512, "")
	if op.K != "open" {
		s.SetPreload(op.Preload)
		if err := s.Open(); err != nil {
			fmt.Println("RESULT harness-error open:", err)
			return 4
		}
		s.Replica().VerifSetHoleDrainer(replica.VerifFastHoleDrainer)
		mode := op.Mode
		if mode == "" {
			mode = "RW"
		}
		s.SetReplicaMode(mode)
	}
	if op.PreRebuilding && s.Replica() != nil {
		if err := s.SetRebuilding(true); err != nil {
			fmt.Println("RESULT harness-error setrebuilding:", err)
			return 4
		}
	}
	syscall.Access(markBegin, 0)
	err := victimDo(s, dir, op)
	syscall.Access(markEnd, 0)
	if op.Then != "" {
		var terr error
		if strings.HasPrefix(op.Then, "touch") && s.Replica() != nil {
			terr = s.SetRebuilding(false)
		}
		if op.Then == "removenext" && s.Replica() != nil {
			if e := victimDo(s, dir, VictimOp{K: "remove", Name: op.Next}); e != nil {
				fmt.Println("THEN removal refused:", e)
			}
			// what the running replica serves now (before any reopen)
			if r := s.Replica(); r != nil {
				buf := make([]byte, r.Info().Size)
				if _, e := s.ReadAt(buf, 0); e != nil {
					fmt.Println("THEN read error:", e)
				} else if e := os.WriteFile(dir+".thenlive", buf, 0600); e != nil {
					fmt.Println("THEN read error:", e)
				}
			}
			terr = s.Close()
		}
		if strings.HasSuffix(op.Then, "close") && terr == nil {
			terr = s.Close()
		}
		if terr != nil {
			fmt.Println("THEN error:", terr)
		} else {
			fmt.Println("THEN ok")
		}
	}
	if err != nil {
		fmt.Println("RESULT error:", err)
		return 0
	}
	fmt.Println("RESULT ok")
	return 0
}

func victimDo(s *replica.Server, dir string, op VictimOp) error {
	switch op.K {
	case "write":
		_, err := s.WriteAt(payload(op.Idx, op.Seed, op.Off, op.Len), op.Off)
		return err
	case "snap":
		return s.Snapshot(op.Name, op.User, "Tvictim")
	case "markrm":
		_, err := s.PrepareRemoveDisk(op.Name)
		return err
	case "remove":
		acts, err := s.PrepareRemoveDisk(op.Name)
		if err != nil {
			return err
		}
		for _, a := range acts {
			switch a.Action {
			case replica.OpCoalesce:
				if err := sparse.FoldFile(filepath.Join(dir, a.Source), filepath.Join(dir, a.Target), noFold{}); err != nil {
					return err
				}
			case replica.OpRemove:
				if err := s.RemoveDiffDisk(a.Source); err != nil {
					return err
				}
			}
		}
		return nil
	case "revert":
		return s.Revert(op.Name, "Tvictim")
	case "resize":
		return s.Resize(strconv.FormatInt(op.N, 10))
	case "setcp":
		return s.SetCheckpoint(op.Name)
	case "setrebuilding":
		return s.SetRebuilding(op.On)
	case "setclonestatus":
		return s.Replica().SetCloneStatus(op.Name)
	case "setrev":
		return s.SetRevisionCounter(op.N)
	case "close":
		return s.Close()
	case "open":
		s.SetPreload(op.Preload)
		return s.Open()
	}
	return fmt.Errorf("unknown victim op %s", op.K)
}

// ---- strace runner -------------------------------------------------------------

// SysCall is one traced file-system call of the victim's main thread.
type SysCall struct {
	Name    string `json:"name"`
	Ordinal int    `json:"ord"` // n-th call of this name on the main thread since process start
	Args    string `json:"args"`
	Ret     string `json:"ret"`
	Role    string `json:"role"` // stable description used in signatures
}

const straceSet = "openat,write,pwrite64,rename,renameat,renameat2,link,linkat,unlink,unlinkat,truncate,ftruncate,fallocate,fsync,fdatasync,mkdir,mkdirat,faccessat,faccessat2,close"

var lineRe = regexp.MustCompile(`^(\d+)\s+(\w+)\((.*)\)\s+=\s+(.*)$`)

type VictimRun struct {
	Result string // "ok", "error: ...", "" (died)
	Then   string // result of the follow-up ("" = none / died before)
	Died   bool
	Calls  []SysCall // main-thread calls between the markers
	Raw    string
}

// runVictim executes op on dir in a victim process under strace. inject is
// "" (record only) or e.g. "renameat:signal=SIGKILL:when=3" / "write:error=ENOSPC:when=5".
func runVictim(dir string, op VictimOp, maxChain int, inject string) (*VictimRun, error) {
	self := os.Getenv("VERIF_SELF")
	if self == "" {
		self = os.Args[0]
	}
	ob, _ := json.Marshal(op)
	tf, err := os.CreateTemp(filepath.Dir(dir), "trace-*.txt")
	if err != nil {
		return nil, err
	}
	tf.Close()
	defer os.Remove(tf.Name())
	args := []string{"-f", "-o", tf.Name(), "-e", "trace=" + straceSet, "-e", "signal=none"}
	if inject != "" {
		args = append(args, "-e", "inject="+inject)
	}
	args = append(args, self)
	cmd := exec.Command("strace", args...)
	cmd.Env = append(os.Environ(), "VERIF_CHILD=victim", "VERIF_VICTIM_OP="+string(ob), "VERIF_VICTIM_DIR="+dir,
		fmt.Sprintf("VERIF_VICTIM_MAXCHAIN=%d", maxChain), "GOMAXPROCS=2")
	cmd.SysProcAttr = &syscall.SysProcAttr{Setpgid: true}
	out, err := cmd.StdoutPipe()
	if err != nil {
		return nil, err
	}
	cmd.Stderr = io.Discard
	if err := cmd.Start(); err != nil {
		return nil, err
	}
	res, then := "", ""
	done := make(chan struct{})
	go func() {
		sc := bufio.NewScanner(out)
		for sc.Scan() {
			if strings.HasPrefix(sc.Text(), "RESULT ") {
				res = strings.TrimPrefix(sc.Text(), "RESULT ")
			}
			if strings.HasPrefix(sc.Text(), "THEN ") {
				then = strings.TrimPrefix(sc.Text(), "THEN ")
			}
		}
		close(done)
	}()
	werr := make(chan error, 1)
	go func() { werr <- cmd.Wait() }()
	select {
	case <-werr:
	case <-time.After(60 * time.Second):
		syscall.Kill(-cmd.Process.Pid, syscall.SIGKILL)
		<-werr
		return nil, fmt.Errorf("victim timed out")
	}
	<-done
	vr := &VictimRun{Result: res, Then: then, Died: res == ""}
	raw, _ := os.ReadFile(tf.Name())
	vr.Raw = string(raw)
	if strings.HasPrefix(res, "harness-error") {
		return vr, fmt.Errorf("victim: %s", res)
	}
	vr.Calls = parseTrace(vr.Raw, dir)
	return vr, nil
}

// parseTrace extracts the main thread's calls between the two markers, with
// per-name ordinals counted from process start (what strace's when= counts).
func parseTrace(raw, dir string) []SysCall {
	lines := strings.Split(raw, "\n")
	// the thread that runs the operation is the one that issued the begin marker
	mainTid := ""
	for _, l := range lines {
		if strings.Contains(l, markBegin) {
			if m := lineRe.FindStringSubmatch(l); m != nil {
				mainTid = m[1]
				break
			}
		}
	}
	if mainTid == "" {
		for _, l := range lines {
			if m := lineRe.FindStringSubmatch(l); m != nil {
				mainTid = m[1]
				break
			}
		}
	}
	counts := map[string]int{}
	fdKind := map[string]string{} // main-thread view of descriptors -> kind of file
	var out []SysCall
	in := false
	pendingOpen := map[string]string{} // tid -> args of an openat whose result is still to come
	pendingOut := map[string]int{}     // tid -> index in out of a recorded call whose result is still to come
	for _, l := range lines {
		// a call that another thread's output interrupted is printed in two parts:
		// "<tid> name(args <unfinished ...>" and "<tid> <... name resumed>rest) = ret".
		// The first part is the call (its place in the sequence), the second completes it.
		if strings.Contains(l, "<unfinished") {
			idx := strings.Index(l, "<unfinished")
			l = strings.TrimSpace(l[:idx]) + ") = ?"
		} else if strings.Contains(l, "resumed>") {
			if rm := resumedRe.FindStringSubmatch(l); rm != nil {
				tid, rname, ret := rm[1], rm[2], rm[4]
				if a, ok := pendingOpen[tid]; ok && rname == "openat" {
					delete(pendingOpen, tid)
					if q := quoted.FindStringSubmatch(a); q != nil {
						if fd := strings.Fields(ret); len(fd) > 0 && !strings.HasPrefix(ret, "-1") {
							k := fileKind(filepath.Base(q[1]))
							if q[1] == dir || strings.Contains(a, "O_DIRECTORY") {
								k = "dir"
							}
							fdKind[fd[0]] = k
						}
					}
				}
				if i, ok := pendingOut[tid]; ok && i < len(out) && out[i].Name == rname {
					out[i].Ret = ret
					delete(pendingOut, tid)
				}
			}
			continue
		}
		m := lineRe.FindStringSubmatch(l)
		if m == nil {
			continue
		}
		name, args, ret := m[2], m[3], m[4]
		if name == "openat" && ret == "?" {
			pendingOpen[m[1]] = args
		}
		if name == "openat" {
			// descriptors are process-wide: follow opens of every thread
			if q := quoted.FindStringSubmatch(args); q != nil {
				if fd := strings.Fields(ret); len(fd) > 0 && !strings.HasPrefix(ret, "-1") {
					k := fileKind(filepath.Base(q[1]))
					if q[1] == dir || strings.Contains(args, "O_DIRECTORY") {
						k = "dir"
					}
					fdKind[fd[0]] = k
				}
			}
		}
		if m[1] != mainTid {
			continue
		}
		counts[name]++
		if name == "faccessat" || name == "faccessat2" {
			if strings.Contains(args, markBegin) {
				in = true
			} else if strings.Contains(args, markEnd) {
				in = false
			}
			continue
		}
		if !in || name == "close" {
			continue
		}
		if name == "openat" && !strings.Contains(args, "O_CREAT") && !strings.Contains(args, "O_TRUNC") {
			// plain opens change nothing; keep directory opens for the lint only
			out = append(out, SysCall{Name: name, Ordinal: counts[name], Args: args, Ret: ret, Role: "open-existing"})
			if ret == "?" {
				pendingOut[m[1]] = len(out) - 1
			}
			continue
		}
		role := callRole(name, args, dir)
		switch name {
		case "write", "pwrite64", "fsync", "fdatasync", "ftruncate", "fallocate":
			fd := strings.TrimSpace(strings.Split(args, ",")[0])
			k := fdKind[fd]
			if k == "" {
				k = "other"
			}
			role = name + "(" + k + ")"
		}
		out = append(out, SysCall{Name: name, Ordinal: counts[name], Args: args, Ret: ret, Role: role})
		if ret == "?" {
			pendingOut[m[1]] = len(out) - 1
		}
	}
	return out
}

var resumedRe = regexp.MustCompile(`^(\d+)\s+<\.\.\.\s+(\w+)\s+resumed>(.*)\)\s+=\s+(.*)$`)

var quoted = regexp.MustCompile(`"([^"]*)"`)

// callRole builds a stable, input-level description of a call: its name plus
// the kind of file it touches (never an ordinal, offset or path).
func callRole(name, args, dir string) string {
	kinds := []string{}
	for _, q := range quoted.FindAllStringSubmatch(args, -1) {
		kinds = append(kinds, fileKind(filepath.Base(q[1])))
	}
	if len(kinds) == 0 {
		return name
	}
	return name + "(" + strings.Join(kinds, "->") + ")"
}

func fileKind(base string) string {
	tmp := ""
	if strings.HasSuffix(base, ".tmp") {
		base = strings.TrimSuffix(base, ".tmp")
		tmp = ".tmp"
	}
	switch {
	case base == "volume.meta":
		return "volume.meta" + tmp
	case base == "revision.counter":
		return "revision.counter"
	case strings.HasPrefix(base, "volume-head-") && strings.HasSuffix(base, ".img.meta"):
		return "head.meta" + tmp
	case strings.HasPrefix(base, "volume-head-") && strings.HasSuffix(base, ".img"):
		return "head.img"
	case strings.HasPrefix(base, "volume-snap-") && strings.HasSuffix(base, ".img.meta"):
		return "snap.meta" + tmp
	case strings.HasPrefix(base, "volume-snap-") && strings.HasSuffix(base, ".img"):
		return "snap.img"
	}
	return "dir"
}

// isMutating reports whether the call changes the directory or file content.
func (c SysCall) isMutating() bool {
	return c.Role != "open-existing"
}
