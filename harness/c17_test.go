package harness

import (
	"bytes"
	"crypto/sha1"
	"encoding/json"
	"fmt"
	"io"
	"net/http"
	"os"
	"path/filepath"
	"sort"
	"strings"
	"testing"
	"time"

	"github.com/openebs/jiva/backend/dynamic"
	"github.com/openebs/jiva/backend/remote"
	"github.com/openebs/jiva/types"
	"pgregory.net/rapid"
)

// GOp is one step of a gating program on a single replica node.
type GOp struct {
	K    string `json:"k"` // create open close mode rebuilding reload snap attach detach | io mgmt rest
	Str  string `json:"str,omitempty"`
	On   bool   `json:"on,omitempty"`
	Off  int64  `json:"off,omitempty"`
	Len  int64  `json:"len,omitempty"`
	Seed int    `json:"seed,omitempty"`
}

type GCase struct {
	Blocks int   `json:"blocks"`
	Ops    []GOp `json:"ops"`
}

var restActionBodies = map[string]string{
	"start": `{"Action":"start"}`, "reload": `{}`, "updatecloneinfo": `{"snapname":"nosuch","revisioncounter":"5"}`,
	"snapshot": `{"name":"rsnap","usercreated":true,"created":"2020-01-01T00:00:00Z"}`, "open": ``, "close": ``,
	"resize": `{"name":"vol","size":"1048576"}`, "removedisk": `{"name":"volume-snap-g0.img"}`,
	"replacedisk": `{"target":"volume-snap-g0.img","source":"volume-snap-g1.img"}`, "setrebuilding": `{"rebuilding":true}`,
	"setlogging": `{"logtofile":{"enable":false}}`, "create": `{"size":"65536"}`,
	"revert": `{"name":"volume-snap-g0.img","created":"2020-01-01T00:00:00Z"}`, "prepareremovedisk": `{"name":"g0"}`,
	"setrevisioncounter": `{"counter":"77"}`, "setreplicamode": `{"mode":"RW"}`, "setcheckpoint": `{"snapshotName":"volume-snap-g0.img"}`,
}

var restActionNames = func() []string {
	var n []string
	for k := range restActionBodies {
		n = append(n, k)
	}
	sort.Strings(n)
	return append(n, "nosuchaction", "updatediskmode", "setreplicacounter")
}()

// dirFingerprint: names, sizes and content hashes of all files of a replica directory.
func dirFingerprint(dir string) string {
	ents, err := os.ReadDir(dir)
	if err != nil {
		return "unreadable:" + err.Error()
	}
	var parts []string
	for _, e := range ents {
		if e.IsDir() || strings.HasSuffix(e.Name(), ".log") || e.Name() == "log.info" {
			continue
		}
		b, err := os.ReadFile(filepath.Join(dir, e.Name()))
		if err != nil {
			parts = append(parts, e.Name()+":err")
			continue
		}
		parts = append(parts, fmt.Sprintf("%s:%d:%x", e.Name(), len(b), sha1.Sum(b)))
	}
	sort.Strings(parts)
	return strings.Join(parts, "\n")
}

type gState struct {
	State   string
	Mode    string
	Chain   string
	Counter int64
	FP      string
}

func observe(n *Node) gState {
	var g gState
	st, _ := n.S.Status()
	g.State = string(st)
	if r := n.S.Replica(); r != nil {
		g.Mode = r.GetReplicaMode()
		ch, _ := r.Chain()
		g.Chain = strings.Join(ch, ",")
	}
	g.Counter, _ = n.S.GetRevisionCounter()
	g.FP = dirFingerprint(n.Dir)
	return g
}

func (a gState) diff(b gState) string {
	switch {
	case a.State != b.State:
		return fmt.Sprintf("state %s -> %s", a.State, b.State)
	case a.Mode != b.Mode:
		return fmt.Sprintf("mode %s -> %s", a.Mode, b.Mode)
	case a.Chain != b.Chain:
		return fmt.Sprintf("chain %s -> %s", a.Chain, b.Chain)
	case a.Counter != b.Counter:
		return fmt.Sprintf("revision counter %d -> %d", a.Counter, b.Counter)
	case a.FP != b.FP:
		return "files of the replica directory changed"
	}
	return ""
}

func restInfo(n *Node) (state string, actions map[string]string, err error) {
	resp, err := http.Get("http://" + n.IP + ":9502/v1/replicas/1")
	if err != nil {
		return "", nil, err
	}
	defer resp.Body.Close()
	var r struct {
		State   string            `json:"state"`
		Actions map[string]string `json:"actions"`
	}
	if err := json.NewDecoder(resp.Body).Decode(&r); err != nil {
		return "", nil, err
	}
	return r.State, r.Actions, nil
}

func runGCase(gc GCase) (*Fail, []string, map[string]int, error) {
	startHoleCreator()
	clearFatal()
	labels := map[string]int{}
	types.MaxChainLength = 0
	types.ShouldPunchHoles = false
	SetStackTimeouts(2*time.Second, 4*time.Second, time.Hour)
	base := newCaseDir("gate")
	defer os.RemoveAll(base)
	var n *Node
	var err error
	for attempt := 0; attempt < 20; attempt++ {
		n, err = NewNode("g", nodeIP(caseSlot(), 1), filepath.Join(base, "r"), 0, true)
		if err == nil || !strings.Contains(err.Error(), "address already in use") {
			break
		}
	}
	if err != nil {
		return nil, nil, nil, err
	}
	defer n.Shutdown()
	fac := dynamic.New(map[string]types.BackendFactory{"tcp": remote.New()})
	var attached types.Backend
	size := int64(gc.Blocks) * Blk
	var trace []string
	tr := func(f string, a ...interface{}) { trace = append(trace, fmt.Sprintf(f, a...)) }
	created := false
	snapN := 0
	mode := ""          // model: INIT after open until set
	rebuilding := false // model: the persisted rebuilding flag (set/cleared only by an accepted set-rebuilding)
	isOpen := func() bool { return n.S.Replica() != nil }
	for oi, op := range gc.Ops {
		before := observe(n)
		switch op.K {
		case "create":
			err := n.S.Create(size)
			tr("#%d create -> %v", oi, err)
			if err == nil {
				created = true
			}
		case "open":
			err := n.S.Open()
			n.fixDrainer()
			tr("#%d open -> %v (state before %s)", oi, err, before.State)
			if before.State != "closed" && err == nil && before.State != "initial" {
				return fail("open|state="+before.State+"|accepted", "Open succeeded on a replica in state "+before.State, "C17"), trace, labels, nil
			}
			if err == nil {
				mode = "INIT"
			}
		case "close":
			n.fixDrainer()
			err := n.S.Close()
			tr("#%d close -> %v", oi, err)
			if attached != nil {
				attached.Close()
				attached = nil
				n.DropConn()
			}
		case "mode":
			err := n.S.SetReplicaMode(op.Str)
			tr("#%d setmode %s -> %v", oi, op.Str, err)
			if !isOpen() && err == nil {
				return fail("setmode|closed|accepted", "SetReplicaMode succeeded on a closed replica", "C17"), trace, labels, nil
			}
			if err == nil {
				mode = op.Str
			}
		case "rebuilding":
			err := n.S.SetRebuilding(op.On)
			tr("#%d setrebuilding %v -> %v", oi, op.On, err)
			if err == nil {
				rebuilding = op.On
			}
			if !isOpen() && err == nil {
				return fail("setrebuilding|closed|accepted", "SetRebuilding succeeded on a closed replica", "C17"), trace, labels, nil
			}
		case "reload":
			if isOpen() {
				err := n.S.Reload()
				n.fixDrainer()
				types.ShouldPunchHoles = false
				tr("#%d reload -> %v", oi, err)
			}
		case "snap":
			err := n.S.Snapshot(fmt.Sprintf("g%d", snapN), snapN%2 == 0, "T")
			tr("#%d snapshot g%d -> %v", oi, snapN, err)
			if err == nil {
				snapN++
			}
			if !isOpen() && err == nil {
				return fail("snapshot|closed|accepted", "Snapshot succeeded on a closed replica", "C17"), trace, labels, nil
			}
		case "attach":
			b, err := fac.Create(n.Addr)
			tr("#%d attach (state %s) -> %v", oi, before.State, err)
			labels["attach"]++
			if before.State != "closed" {
				if err == nil {
					return fail("attach|state="+before.State+"|accepted", "a controller backend could be created against a replica in state "+before.State+" (it can be attached twice)", "C17", "C18"), trace, labels, nil
				}
			} else {
				if err != nil {
					return fail("attach|closed|refused", fmt.Sprintf("backend creation against a closed replica failed: %v", err), "C17"), trace, labels, nil
				}
				attached = b
				mode = "INIT"
				n.fixDrainer()
				labels["attach:ok"]++
			}
		case "attachrace":
			// two controllers (or a retried add) ask for the replica at the same time:
			// it can be attached only while closed, so at most one of them gets it
			if attached != nil {
				break
			}
			type res struct {
				b   types.Backend
				err error
			}
			rc := make(chan res, 2)
			gate := make(chan struct{})
			for w := 0; w < 2; w++ {
				go func(w int) {
					<-gate
					if w == 1 {
						time.Sleep(time.Duration(op.Off) * 100 * time.Microsecond)
					}
					b, err := fac.Create(n.Addr)
					rc <- res{b, err}
				}(w)
			}
			close(gate)
			r1, r2 := <-rc, <-rc
			tr("#%d attachrace stagger=%dus (state %s) -> %v / %v", oi, op.Off*100, before.State, r1.err, r2.err)
			labels["attachrace"]++
			nok := 0
			for _, r := range []res{r1, r2} {
				if r.err == nil {
					nok++
				}
			}
			if nok == 2 || (nok == 1 && before.State != "closed") {
				for _, r := range []res{r1, r2} {
					if r.b != nil {
						r.b.Close()
					}
				}
				if nok == 2 {
					return fail("attach|concurrent|both-accepted", "two backends were created at the same time against one replica (state before: "+before.State+"): it is attached twice", "C17", "C18"), trace, labels, nil
				}
				return fail("attach|state="+before.State+"|accepted", "a controller backend could be created against a replica in state "+before.State, "C17", "C18"), trace, labels, nil
			}
			if nok == 1 {
				if r1.err == nil {
					attached = r1.b
				} else {
					attached = r2.b
				}
				mode = "INIT"
				n.fixDrainer()
				labels["attach:ok"]++
				labels["attachrace:one-won"]++
			} else if before.State == "closed" {
				return fail("attach|closed|refused", fmt.Sprintf("neither of two concurrent backend creations against a closed replica succeeded: %v / %v", r1.err, r2.err), "C17"), trace, labels, nil
			}
		case "detach":
			if attached != nil {
				attached.Close()
				attached = nil
				n.DropConn()
				tr("#%d detach", oi)
			}
		case "io":
			off, length := op.Off*Sec, op.Len*Sec
			if created && off+length > size {
				continue
			}
			buf := payload(oi, op.Seed, off, length)
			var err error
			switch op.Str {
			case "write":
				_, err = n.S.WriteAt(buf, off)
			case "read":
				_, err = n.S.ReadAt(make([]byte, length), off)
			case "sync":
				_, err = n.S.Sync()
			case "unmap":
				_, err = n.S.Unmap(off, length)
			}
			after := observe(n)
			tr("#%d io %s off=%d len=%d (state %s mode %s) -> %v", oi, op.Str, off, length, before.State, before.Mode, err)
			labels["io:"+op.Str]++
			if !isOpen() {
				labels["io:while-closed"]++
				if err == nil {
					return fail("io|"+op.Str+"|closed|served", op.Str+" returned success on a replica in state "+before.State, "C17"), trace, labels, nil
				}
				if d := before.diff(after); d != "" {
					return fail("io|"+op.Str+"|closed|side-effect", op.Str+" on a closed replica: "+d, "C17"), trace, labels, nil
				}
				continue
			}
			if op.Str == "write" && length > 0 {
				switch before.Mode {
				case "RW":
					if err != nil {
						return fail("io|write|RW|refused", fmt.Sprintf("write refused in RW: %v", err), "C17", "C01"), trace, labels, nil
					}
					if after.Counter != before.Counter+1 {
						return fail("io|write|RW|counter", fmt.Sprintf("revision counter %d -> %d after one write in RW", before.Counter, after.Counter), "C10", "C17"), trace, labels, nil
					}
				case "WO":
					if err != nil {
						return fail("io|write|WO|refused", fmt.Sprintf("write refused in WO: %v", err), "C17"), trace, labels, nil
					}
					if after.Counter != before.Counter {
						return fail("io|write|WO|counter", fmt.Sprintf("revision counter %d -> %d after a write in WO", before.Counter, after.Counter), "C10", "C17"), trace, labels, nil
					}
				default:
					labels["io:write-in-"+before.Mode]++
					if err == nil {
						return fail("io|write|mode="+before.Mode+"|acknowledged", "write acknowledged in mode "+before.Mode, "C17"), trace, labels, nil
					}
					if after.Counter != before.Counter {
						return fail("io|write|mode="+before.Mode+"|counter", fmt.Sprintf("revision counter %d -> %d after a refused write in mode %s", before.Counter, after.Counter, before.Mode), "C10", "C17"), trace, labels, nil
					}
				}
			}
		case "mgmt":
			var err error
			what := op.Str
			switch op.Str {
			case "removedisk":
				err = n.S.RemoveDiffDisk("volume-snap-g0.img")
				n.fixDrainer()
			case "prepareremove":
				_, err = n.S.PrepareRemoveDisk("g0")
			case "setrev":
				err = n.S.SetRevisionCounter(int64(50 + oi))
			}
			after := observe(n)
			tr("#%d mgmt %s (state %s mode %s) -> %v", oi, what, before.State, before.Mode, err)
			labels["mgmt:"+what]++
			if !isOpen() || before.Mode != "RW" {
				labels["mgmt:outside-RW"]++
				if err == nil && !(what == "prepareremove" && isOpen() && before.Mode == "RW") {
					return fail("mgmt|"+what+"|mode="+before.Mode+"|state="+before.State+"|accepted", what+" accepted on a replica in state "+before.State+" mode "+before.Mode, "C17", "C11"), trace, labels, nil
				}
				if d := before.diff(after); d != "" {
					return fail("mgmt|"+what+"|refused-with-side-effect", what+" was refused but "+d, "C17"), trace, labels, nil
				}
			}
		case "rest":
			rstate, acts, err := restInfo(n)
			if err != nil {
				return nil, trace, labels, fmt.Errorf("rest info: %v", err)
			}
			body := restActionBodies[op.Str]
			var rd io.Reader
			if body != "" {
				rd = strings.NewReader(body)
			}
			resp, err := http.Post("http://"+n.IP+":9502/v1/replicas/1?action="+op.Str, "application/json", rd)
			if err != nil {
				return nil, trace, labels, fmt.Errorf("rest post: %v", err)
			}
			io.Copy(io.Discard, resp.Body)
			resp.Body.Close()
			n.fixDrainer()
			after := observe(n)
			_, advertised := acts[op.Str]
			tr("#%d rest %s (state %s advertised=%v) -> %d", oi, op.Str, rstate, advertised, resp.StatusCode)
			labels["rest"]++
			if !advertised {
				labels["rest:not-advertised"]++
				if resp.StatusCode < 400 {
					return fail("rest|"+op.Str+"|state="+rstate+"|not-advertised-answered-"+fmt.Sprint(resp.StatusCode), fmt.Sprintf("action %s is not advertised in state %s but was answered %d", op.Str, rstate, resp.StatusCode), "C17"), trace, labels, nil
				}
				if d := before.diff(after); d != "" {
					return fail("rest|"+op.Str+"|state="+rstate+"|not-advertised-side-effect", fmt.Sprintf("action %s is not advertised in state %s, was refused, but %s", op.Str, rstate, d), "C17"), trace, labels, nil
				}
			}
			if advertised && resp.StatusCode >= 400 {
				// a valid action that fails (bad argument, name that does not exist, ...)
				// is refused as well: the replica stays in the state and mode it was in
				labels["rest:advertised-but-failed"]++
				if before.State != after.State || before.Mode != after.Mode || before.Chain != after.Chain {
					return fail("rest|"+op.Str+"|state="+rstate+"|failed-with-side-effect", fmt.Sprintf("action %s was answered %d in state %s, but %s", op.Str, resp.StatusCode, rstate, before.diff(after)), "C17", "C12"), trace, labels, nil
				}
			}
			if op.Str == "setrebuilding" && resp.StatusCode == 200 {
				rebuilding = true // the body sent is {"rebuilding":true}
			}
			if (op.Str == "create" || op.Str == "updatecloneinfo") && resp.StatusCode == 200 && before.State == "initial" {
				rebuilding = false
			}
			// follow externally visible transitions for the model
			if !isOpen() {
				mode = ""
			} else if r := n.S.Replica(); r != nil {
				mode = r.GetReplicaMode()
			}
			if op.Str == "create" && after.State != "initial" {
				created = true
			}
		}
		if m := takeFatal(); m != "" {
			return fail("gate|"+op.K+"|process-exit", m, "C17", "C14"), trace, labels, nil
		}
		// the state a replica reports is what gates its REST actions: while the
		// rebuilding flag is set an open replica is "rebuilding", whatever else is true
		if isOpen() {
			st, info := n.S.Status()
			if info.Rebuilding != rebuilding {
				return fail("state|rebuilding-flag|after="+op.K, fmt.Sprintf("rebuilding flag is %v, expected %v after %s", info.Rebuilding, rebuilding, op.K), "C17", "C07"), trace, labels, nil
			}
			if rebuilding && string(st) != "rebuilding" {
				return fail("state|rebuilding-reported-as-"+string(st), fmt.Sprintf("the replica is rebuilding but reports state %q (after %s): actions that are not valid during a rebuild become available", st, op.K), "C17", "C07"), trace, labels, nil
			}
			if rebuilding {
				labels["state:rebuilding-observed"]++
			}
		}
	}
	_ = mode
	if attached != nil {
		attached.Close()
	}
	return nil, trace, labels, nil
}

func genGCase(t *rapid.T) GCase {
	gc := GCase{Blocks: rapid.IntRange(4, 16).Draw(t, "blocks")}
	total := int64(gc.Blocks) * 8
	n := rapid.IntRange(4, 40).Draw(t, "nops")
	for len(gc.Ops) < n {
		k := rapid.SampledFrom([]string{"create", "open", "open", "close", "mode", "mode", "rebuilding", "reload", "snap", "snap", "attach", "attach", "attachrace", "detach",
			"io", "io", "io", "io", "mgmt", "mgmt", "rest", "rest", "rest"}).Draw(t, "op")
		op := GOp{K: k}
		switch k {
		case "mode":
			op.Str = rapid.SampledFrom([]string{"RW", "WO", "RW"}).Draw(t, "mode")
		case "rebuilding":
			op.On = rapid.Bool().Draw(t, "on")
		case "io":
			op.Str = rapid.SampledFrom([]string{"write", "write", "read", "sync", "unmap"}).Draw(t, "iokind")
			op.Off = rapid.Int64Range(0, total-1).Draw(t, "off")
			op.Len = rapid.Int64Range(1, min64(total-op.Off, 24)).Draw(t, "len")
			op.Seed = rapid.IntRange(1, 200).Draw(t, "seed")
		case "attachrace":
			op.Off = int64(rapid.SampledFrom([]int{0, 0, 2, 5, 10, 20, 40}).Draw(t, "stagger"))
		case "mgmt":
			op.Str = rapid.SampledFrom([]string{"removedisk", "prepareremove", "setrev"}).Draw(t, "mgmt")
		case "rest":
			op.Str = rapid.SampledFrom(restActionNames).Draw(t, "action")
		}
		gc.Ops = append(gc.Ops, op)
	}
	return gc
}

// TestC17 — replica operations are gated by its mode and open/closed state.
func TestC17(t *testing.T) {
	rec := NewRecorder("C17", "TestC17")
	defer rec.Flush(t)
	run := func(gc GCase, fatalf func(string, ...interface{})) {
		f, trace, labels, err := runGCase(gc)
		if err != nil {
			fatalf("HARNESS ERROR: %v", err)
			return
		}
		var ls []string
		for k := range labels {
			ls = append(ls, k)
		}
		rec.Case(gc, labels["io:while-closed"]+labels["mgmt:outside-RW"]+labels["rest:not-advertised"] > 0 && labels["attach"] > 0, ls...)
		if f != nil && labels["attach"] > 0 {
			// A replica closes itself when a controller connection ends, and with attach
			// steps in the program such a connection can end a moment later than the step
			// that caused it (on a busy machine: during a later, unrelated step, whose
			// before/after comparison then shows a state change it did not make). The
			// steps themselves are sequential and deterministic: a finding is reported
			// only if the same program produces it again.
			f2, _, _, err2 := runGCase(gc)
			if err2 == nil && (f2 == nil || f2.Sig != f.Sig) {
				rec.Label("finding-not-reproduced-by-the-same-program:"+f.Sig, 1)
				f = nil
			}
		}
		if f != nil {
			detail := f.Detail + "\ntrace:\n  " + strings.Join(tail(trace, 30), "\n  ")
			if f.Has("C17") {
				if rec.Fail("C17", "C17|"+f.Sig, detail, gc) {
					return
				}
				fatalf("VIOLATION C17 %s: %s", f.Sig, detail)
			}
			rec.Label("crossfinding:"+f.Sig, 1)
		}
	}
	var rp GCase
	if isReplay, err := LoadReplay(&rp); isReplay {
		if err != nil {
			t.Fatalf("HARNESS ERROR: %v", err)
		}
		run(rp, t.Fatalf)
		return
	}
	if firstShard() {
		for _, rf := range regressFiles("TestC17") {
			var c GCase
			if err := loadCaseFile(rf, &c); err != nil {
				t.Fatalf("HARNESS ERROR: bad regression file %s: %v", rf, err)
			}
			rec.Label("regress-replayed", 1)
			run(c, t.Fatalf)
		}
	}
	checkBudget(t, func(rt *rapid.T) { run(genGCase(rt), rt.Fatalf) })
}

var _ = bytes.Equal
