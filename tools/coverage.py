#!/usr/bin/env python3
"""Development aid: which product code do the checks execute?

  VERIF_COVER=/root/verif-scratch/cover ./check C02 quick      (for each id of interest)
  python3 tools/coverage.py /root/verif-scratch/cover [file-substring ...]

Merges the per-shard Go cover profiles and prints, for the product's packages,
every function with its statement coverage (functions at 0% first). Only code
executed inside the harness process is seen: the real `jiva` binaries that the
system tiers start as child processes are not instrumented.
"""
import collections, glob, os, subprocess, sys, tempfile
d = sys.argv[1]
filt = sys.argv[2:]
blocks = collections.OrderedDict()
for f in sorted(glob.glob(os.path.join(d, "*.out"))):
    for line in open(f):
        if line.startswith("mode:"):
            continue
        try:
            key, n, c = line.rsplit(" ", 2)
        except ValueError:
            continue
        k = (key, n)
        blocks[k] = blocks.get(k, 0) + int(c)
merged = tempfile.NamedTemporaryFile("w", suffix=".out", delete=False)
merged.write("mode: set\n")
for (key, n), c in blocks.items():
    merged.write("%s %s %d\n" % (key, n, 1 if c > 0 else 0))
merged.close()
src = os.environ.get("JIVA_SRC", "/repo")
env = dict(os.environ, GOFLAGS="-mod=mod", GOPROXY="off", GOSUMDB="off", GOTOOLCHAIN="local")
out = subprocess.run(["go", "tool", "cover", "-func=" + merged.name], cwd=src, env=env, stdout=subprocess.PIPE, stderr=subprocess.STDOUT, text=True).stdout
rows = []
for line in out.splitlines():
    parts = line.split()
    if len(parts) != 3 or not parts[2].endswith("%"):
        continue
    loc, fn, pct = parts
    if "/vendor/" in loc or "verif_hooks" in loc:
        continue
    if filt and not any(s in loc for s in filt):
        continue
    rows.append((float(pct[:-1]), loc, fn))
rows.sort()
for pct, loc, fn in rows:
    print("%6.1f%%  %-70s %s" % (pct, loc.replace("github.com/openebs/jiva/", ""), fn))
os.unlink(merged.name)
