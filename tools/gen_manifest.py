#!/usr/bin/env python3
"""Regenerate /verif/MANIFEST.json from tools/plan.py (claims) and tools/na.py."""
import json, os, sys
sys.path.insert(0, os.path.dirname(os.path.abspath(__file__)))
import plan

ALL = ["C%02d" % i for i in range(1, 20)]
hooks_commits = plan.HOOK_COMMITS
checks = []
for pid in ALL:
    if pid not in plan.PLAN or not plan.PLAN[pid].get("claimed", True):
        continue
    sp = plan.PLAN[pid]
    checks.append({
        "property_id": pid,
        "quick_cmd": "./check %s quick" % pid,
        "thorough_cmd": "./check %s thorough" % pid,
        "evidence_file": "/verif/evidence/%s.json" % pid,
        "replay_cmd_template": "./check %s --replay {path}" % pid,
        "engine": sp.get("engine", "harness"),
        "level_claimed": {
            "category": sp.get("level", "exploration"),
            "text": sp.get("level_text", sp["rule"]),
            "design_ref": "DESIGN.md section 4, " + pid,
        },
        "level_note": "; ".join(sp.get("assumptions", [])),
        "technique": sp.get("technique", "property-based testing (rapid) against a reference model"),
    })
na = [{"property_id": pid, "reason": plan.NOT_APPLICABLE.get(pid, "check not built yet in this session; no claim is made")}
      for pid in ALL if pid not in [c["property_id"] for c in checks]]
man = {
    "version": 1,
    "setup_cmd": "./check setup",
    "hooks": {
        "guard": "verif",
        "enable": "go build tag: go test -c -tags verif (harness) / go build -tags verif (jiva binary); hook files are <pkg>/verif_hooks.go with //go:build verif",
        "baseline_off_cmd": "cd /repo && GOFLAGS=-mod=mod GOPROXY=off go test -vet=off -count=1 -timeout 25m ./util/...",
        "source_commits": hooks_commits,
        "add_only": True,
    },
    "engines": [
        {"name": "harness", "path": "/verif/harness", "serves_properties": [c["property_id"] for c in checks],
         "kind_free_text": "one Go test binary (pgregory.net/rapid v1.3.0 generators, reference models, executors against the real jiva packages), sharded and merged by /verif/check"},
    ],
    "checks": checks,
    "not_applicable": na,
    "notes": "Every check rebuilds the harness against /repo's working tree (go test -c -tags verif -modfile .build/<key>/go.mod with replace github.com/openebs/jiva => /repo). VERIF_SEED selects the rapid seeds of all shards. Exit 2 = the check could not run (never a violation). known_findings.json lists fixed/known defects.",
}
json.dump(man, open(os.path.join(os.path.dirname(os.path.dirname(os.path.abspath(__file__))), "MANIFEST.json"), "w"), indent=1)
print("wrote MANIFEST.json with", len(checks), "checks,", len(na), "not claimed")
