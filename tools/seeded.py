#!/usr/bin/env python3
"""Run the quick (or given) tier of a property against the sub-agent-written
breakages under seeded/<dir>/patch.diff, each applied to a scratch copy of
/repo (never /repo itself; JIVA_SRC points the check at the copy).
Usage: tools/seeded.py [--tier quick|thorough] [--from DIR] [name ...]
  --from DIR  take <DIR>/<name>/patch.diff instead of /verif/seeded (for
              candidates that are not stored yet)"""
import hashlib, os, re, shutil, subprocess, sys, time
from concurrent.futures import ThreadPoolExecutor

VERIF = os.path.dirname(os.path.dirname(os.path.abspath(__file__)))
ROOT = os.environ.get("SEEDED_ROOT", "/root/verif-scratch/seeded")

def run(args):
    src, name, tier = args
    pid = re.match(r"C\d\d", name).group(0)
    d = os.path.join(ROOT, name)
    shutil.rmtree(d, ignore_errors=True)
    os.makedirs(ROOT, exist_ok=True)
    subprocess.run(["rsync", "-a", "--exclude", ".git", "/repo/", d + "/"], check=True)
    r = subprocess.run(["patch", "-p1", "-s", "-i", os.path.join(src, name, "patch.diff")], cwd=d, stdout=subprocess.PIPE, stderr=subprocess.STDOUT, text=True)
    if r.returncode != 0:
        shutil.rmtree(d, ignore_errors=True)
        return name, "PATCH-DOES-NOT-APPLY " + r.stdout.strip()[:200], 0
    env = dict(os.environ)
    env.update({"JIVA_SRC": d, "VERIF_EVIDENCE_DIR": os.path.join(d, ".ev"), "VERIF_REPLAYS_DIR": os.path.join(d, ".rp"),
                "VERIF_LASTLOGS_DIR": os.path.join(d, ".ll"), "VERIF_SCRATCH": os.path.join(ROOT, "scratch-" + name)})
    t0 = time.time()
    r = subprocess.run(["./check", pid, tier], cwd=VERIF, env=env, stdout=subprocess.PIPE, stderr=subprocess.STDOUT, text=True)
    sig = [l.strip() for l in r.stdout.splitlines() if l.strip().startswith("signature:")]
    res = {0: "MISSED", 1: "caught", 2: "BROKEN"}.get(r.returncode, str(r.returncode))
    if r.returncode != 1:
        open(os.path.join(ROOT, name + ".log"), "w").write(r.stdout)
    shutil.rmtree(d, ignore_errors=True)
    shutil.rmtree(os.path.join(ROOT, "scratch-" + name), ignore_errors=True)
    key = hashlib.sha1(os.path.abspath(d).encode()).hexdigest()[:10]
    shutil.rmtree(os.path.join(VERIF, ".build", key), ignore_errors=True)
    return name, res + (" " + sig[0] if sig else ""), time.time() - t0

if __name__ == "__main__":
    a = sys.argv[1:]
    tier, src = "quick", os.path.join(VERIF, "seeded")
    while a and a[0].startswith("--"):
        if a[0] == "--tier":
            tier = a[1]
        elif a[0] == "--from":
            src = a[1]
        a = a[2:]
    names = a or sorted(n for n in os.listdir(src) if os.path.exists(os.path.join(src, n, "patch.diff")))
    par = int(os.environ.get("MUT_PAR", "2"))
    with ThreadPoolExecutor(par) as ex:
        for name, res, dt in ex.map(run, [(src, n, tier) for n in names]):
            print("%-10s %-60s %5.0fs" % (name, res, dt), flush=True)
