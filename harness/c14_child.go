package harness

import (
	"encoding/json"
	"fmt"
	"net"
	"net/http"
	"os"
	"runtime/debug"
	"sync"
	"time"

	controllerrest "github.com/openebs/jiva/controller/rest"
	"github.com/sirupsen/logrus"
)

// APIConfig describes the state in which the API server child starts.
type APIConfig struct {
	RF     int    `json:"rf"`
	State  string `json:"state"` // empty | started | degraded | wo
	Extra  string `json:"extra"` // state of the extra stand-alone node: initial | closed | open | rebuilding
	Blocks int    `json:"blocks"`
	// Drop: requests of the controller to its replicas (pattern "METHOD path?action")
	// that get no HTTP answer once (the replica died between two requests)
	Drop []string `json:"drop,omitempty"`
	// ExtraSize: the stand-alone node's volume is "bigger" or "smaller" than the volume ("" = same size)
	ExtraSize string `json:"extrasize,omitempty"`
}

type apiProbe struct {
	Panics    []string `json:"panics"`
	CtrlLock  bool     `json:"ctrlLock"`
	NodeLocks []bool   `json:"nodeLocks"`
	Nodes     []string `json:"nodes"`
	Ctrl      string   `json:"ctrl"`
}

type panicRec struct {
	mu     sync.Mutex
	panics []string
}

func (p *panicRec) wrap(name string, h http.Handler) http.Handler {
	return http.HandlerFunc(func(w http.ResponseWriter, r *http.Request) {
		defer func() {
			if e := recover(); e != nil {
				p.mu.Lock()
				p.panics = append(p.panics, fmt.Sprintf("%s %s %s?%s: panic: %v\n%s", name, r.Method, r.URL.Path, r.URL.RawQuery, e, debug.Stack()))
				p.mu.Unlock()
				w.WriteHeader(500)
			}
		}()
		h.ServeHTTP(w, r)
	})
}

// apiServerChild builds a stack in the requested state, serves both
// management APIs and an admin probe, prints READY and waits to be killed.
func apiServerChild() int {
	var cfg APIConfig
	if err := json.Unmarshal([]byte(os.Getenv("VERIF_API_CFG")), &cfg); err != nil {
		fmt.Fprintln(os.Stderr, "bad VERIF_API_CFG:", err)
		return 3
	}
	logrus.SetOutput(os.Stderr)
	logrus.SetLevel(logrus.FatalLevel)
	logrus.StandardLogger().ExitFunc = func(code int) {
		fmt.Fprintln(os.Stderr, "FATAL-EXIT via logrus.Fatal")
		os.Exit(97)
	}
	pr := &panicRec{}
	restWrap = pr.wrap
	if cfg.Blocks == 0 {
		cfg.Blocks = 8
	}
	SetStackTimeouts(2*time.Second, 4*time.Second, time.Hour)
	st, err := NewStack(cfg.RF, cfg.RF+1, int64(cfg.Blocks)*Blk)
	if err != nil {
		fmt.Fprintln(os.Stderr, "stack:", err)
		return 3
	}
	extra := st.Nodes[cfg.RF]
	switch cfg.State {
	case "started":
		err = st.BringUp(cfg.RF)
	case "degraded":
		err = st.BringUp(cfg.RF)
		if err == nil && cfg.RF > 1 {
			err = st.C.RemoveReplica(st.Nodes[cfg.RF-1].Addr)
		}
	case "wo":
		if cfg.RF > 1 {
			err = st.BringUp(cfg.RF - 1)
			if err == nil {
				err = st.C.AddReplica(st.Nodes[cfg.RF-1].Addr)
			}
		} else {
			err = st.BringUp(1)
		}
	}
	if err != nil {
		fmt.Fprintln(os.Stderr, "bring-up:", err)
		return 3
	}
	if cfg.ExtraSize != "" && cfg.Extra != "initial" {
		sz := int64(cfg.Blocks) * Blk * 2
		if cfg.ExtraSize == "smaller" {
			sz = int64(cfg.Blocks) * Blk / 2
		}
		if err := extra.Recreate(sz); err != nil {
			fmt.Fprintln(os.Stderr, "extra recreate:", err)
			return 3
		}
	}
	switch cfg.Extra {
	case "initial":
		extra.Stop()
		os.RemoveAll(extra.Dir)
		os.MkdirAll(extra.Dir, 0700)
		if err := extra.Restart(); err != nil {
			fmt.Fprintln(os.Stderr, "extra restart:", err)
			return 3
		}
	case "open":
		extra.S.Open()
		extra.fixDrainer()
	case "rebuilding":
		extra.S.Open()
		extra.fixDrainer()
		extra.S.SetRebuilding(true)
	}
	// the replica process marks a freshly opened replica's clone status "NA"
	// (app/replica.go); play that part for every node
	go func() {
		for {
			time.Sleep(20 * time.Millisecond)
			for _, n := range st.Nodes {
				func() {
					defer func() { recover() }()
					if r := n.S.Replica(); r != nil && r.GetCloneStatus() == "" {
						if n.S.TryRLock() {
							n.S.RUnlock()
							r.SetCloneStatus("NA")
						}
					}
				}()
			}
		}
	}()
	for _, pat := range cfg.Drop {
		for _, n := range st.Nodes {
			n.DropRest(pat, 1)
		}
	}
	ctrlIP := st.CtrlIP
	if ctrlIP == "" {
		ctrlIP = nodeIP(st.slot, 200)
	}
	if st.ctrlLn != nil {
		// the bring-up registered through the stack's own REST listener: replace it by the recorded one
		st.ctrlLn.Close()
		st.ctrlLn = nil
	}
	ln, err := net.Listen("tcp", ctrlIP+":9501")
	if err != nil {
		fmt.Fprintln(os.Stderr, "listen:", err)
		return 3
	}
	st.ctrlLn, st.CtrlIP = ln, ctrlIP
	crouter := pr.wrap("controller", controllerrest.NewRouter(controllerrest.NewServer(st.C)))
	go http.Serve(ln, crouter)

	adm, err := net.Listen("tcp", ctrlIP+":9599")
	if err != nil {
		fmt.Fprintln(os.Stderr, "listen admin:", err)
		return 3
	}
	mux := http.NewServeMux()
	mux.HandleFunc("/probe", func(w http.ResponseWriter, r *http.Request) {
		out := apiProbe{Ctrl: ctrlIP + ":9501"}
		pr.mu.Lock()
		out.Panics = append([]string{}, pr.panics...)
		pr.mu.Unlock()
		out.CtrlLock = tryFor(st.C.TryLock, st.C.Unlock, 10*time.Second)
		for _, n := range st.Nodes {
			out.NodeLocks = append(out.NodeLocks, tryFor(n.S.TryLock, n.S.Unlock, 10*time.Second))
			out.Nodes = append(out.Nodes, n.IP+":9502")
		}
		json.NewEncoder(w).Encode(out)
	})
	go http.Serve(adm, mux)
	info := apiProbe{Ctrl: ctrlIP + ":9501"}
	for _, n := range st.Nodes {
		info.Nodes = append(info.Nodes, n.IP+":9502")
	}
	b, _ := json.Marshal(info)
	fmt.Printf("READY %s %s\n", ctrlIP+":9599", b)
	os.Stdout.Sync()
	select {}
}

func tryFor(try func() bool, unlock func(), d time.Duration) bool {
	dl := time.Now().Add(d)
	for {
		if try() {
			unlock()
			return true
		}
		if time.Now().After(dl) {
			return false
		}
		time.Sleep(2 * time.Millisecond)
	}
}
