package harness

import (
	"testing"

	"pgregory.net/rapid"
)

var c07SysCfg = SGenCfg{RFs: []int{3, 3, 2}, MinOps: 3, MaxOps: 8, FaultPct: 0, Blocks: 16, FillPct: 70,
	W: map[string]int{"write": 36, "snapshot": 24, "sysrebuild": 30, "read": 4}}

// TestC07System — the product's own rebuild (sync.Task.AddReplica, real sync
// agents and ssync children) with concurrent foreground writes.
func TestC07System(t *testing.T) {
	runStackProperty(t, "C07", "TestC07System", func(rt *rapid.T) SProgram { return GenSProgram(rt, c07SysCfg) },
		func(p SProgram, x *SExec) bool { return x.Labels["sysrebuild:promoted"] > 0 })
}
