package harness

import (
	"testing"

	"pgregory.net/rapid"
)

var c01Cfg = GenCfg{
	MinBlocks: 4, MaxBlocks: 64, MinOps: 5, MaxOps: 60,
	W: map[string]int{"write": 40, "read": 10, "snap": 12, "remove": 6, "revert": 4, "reopen": 5,
		"reload": 3, "punch": 3, "mode": 2, "unmap": 1, "resize": 1, "setcp": 2, "markrm": 2},
	PunchStart: 40, MaxChainMin: 6, MaxChainMax: 10, DupNamePct: 0, AllowWO: true,
}

func c01Nontrivial(p Program, e *Engine) bool {
	f := features(p)
	return f.Snaps >= 1 && f.WritesAfterSnap >= 1 && (f.Removes+f.Reopens+f.Reloads+f.Reverts) >= 1
}

// TestC01 — a replica reads back exactly what was last written.
func TestC01(t *testing.T) {
	runEngineProperty(t, "C01", "TestC01", func(rt *rapid.T) Program { return GenProgram(rt, c01Cfg) },
		c01Nontrivial, func(e *Engine) { e.CheckSnaps = false })
}
