package harness

import (
	"fmt"
	"os"
)

// childMain dispatches the re-executed test binary (VERIF_CHILD=<mode>).
func childMain(mode string) int {
	switch mode {
	case "victim":
		return victimMain()
	case "apiserver":
		return apiServerChild()
	default:
		fmt.Fprintln(os.Stderr, "unknown VERIF_CHILD mode", mode)
		return 3
	}
}
