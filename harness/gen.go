package harness

import (
	"fmt"
	"sort"

	"pgregory.net/rapid"
)

// GenCfg drives the engine-program generator.
type GenCfg struct {
	MinBlocks, MaxBlocks int
	MinOps, MaxOps       int
	W                    map[string]int // op kind -> weight
	PunchStart           int            // percent of programs that start with punching on
	MaxChainMin          int            // MaxChain drawn from [MaxChainMin, MaxChainMax]
	MaxChainMax          int
	DupNamePct           int // percent of snapshot ops that reuse a name
	AllowWO              bool
}

func weighted(t *rapid.T, w map[string]int, label string) string {
	keys := make([]string, 0, len(w))
	for k, v := range w {
		if v > 0 {
			keys = append(keys, k)
		}
	}
	sort.Strings(keys)
	var pool []string
	for _, k := range keys {
		for i := 0; i < w[k]; i++ {
			pool = append(pool, k)
		}
	}
	return rapid.SampledFrom(pool).Draw(t, label)
}

// genWrite draws a write from explicit shape classes. sizeBlocks = current volume size.
func genWrite(t *rapid.T, sizeBlocks int) Op {
	n := int64(sizeBlocks)
	total := n * 8
	class := rapid.IntRange(0, 10).Draw(t, "wclass")
	seed := rapid.IntRange(1, 250).Draw(t, "seed")
	var off, length int64
	switch class {
	case 0: // inside one block
		b := rapid.Int64Range(0, n-1).Draw(t, "b")
		s := rapid.Int64Range(0, 7).Draw(t, "s")
		l := rapid.Int64Range(1, 8-s).Draw(t, "l")
		off, length = b*8+s, l
	case 1: // exactly one block
		b := rapid.Int64Range(0, n-1).Draw(t, "b")
		off, length = b*8, 8
	case 2: // aligned multi block
		if n < 2 {
			off, length = 0, 8
			break
		}
		b := rapid.Int64Range(0, n-2).Draw(t, "b")
		nb := rapid.Int64Range(2, min64(8, n-b)).Draw(t, "nb")
		off, length = b*8, nb*8
	case 3: // unaligned head, aligned tail
		if n < 2 {
			off, length = 1, 7
			break
		}
		b := rapid.Int64Range(0, n-2).Draw(t, "b")
		s := rapid.Int64Range(1, 7).Draw(t, "s")
		nb := rapid.Int64Range(1, min64(6, n-b-1)).Draw(t, "nb")
		off, length = b*8+s, (8-s)+nb*8
	case 4: // aligned head, unaligned tail
		if n < 2 {
			off, length = 0, 5
			break
		}
		b := rapid.Int64Range(0, n-2).Draw(t, "b")
		nb := rapid.Int64Range(1, min64(6, n-b-1)).Draw(t, "nb")
		e := rapid.Int64Range(1, 7).Draw(t, "e")
		off, length = b*8, nb*8+e
	case 5: // unaligned both, spanning at least two blocks
		if n < 3 {
			off, length = 3, 8
			break
		}
		b := rapid.Int64Range(0, n-3).Draw(t, "b")
		s := rapid.Int64Range(1, 7).Draw(t, "s")
		nb := rapid.Int64Range(0, min64(5, n-b-2)).Draw(t, "nb")
		e := rapid.Int64Range(1, 7).Draw(t, "e")
		off, length = b*8+s, (8-s)+nb*8+e
	case 6, 7: // anything
		off = rapid.Int64Range(0, total-1).Draw(t, "off")
		length = rapid.Int64Range(1, min64(total-off, 80)).Draw(t, "len")
	case 8: // tail of the volume
		l := rapid.Int64Range(1, min64(total, 20)).Draw(t, "l")
		off, length = total-l, l
	case 9: // zero-filled payload
		off = rapid.Int64Range(0, total-1).Draw(t, "off")
		length = rapid.Int64Range(1, min64(total-off, 40)).Draw(t, "len")
		seed = 0
	case 10: // zero length
		off = rapid.Int64Range(0, total-1).Draw(t, "off")
		length = 0
	}
	return Op{K: "write", Off: off, Len: length, Seed: seed}
}

func min64(a, b int64) int64 {
	if a < b {
		return a
	}
	return b
}

// GenProgram generates an engine op program.
func GenProgram(t *rapid.T, cfg GenCfg) Program {
	blocks := rapid.IntRange(cfg.MinBlocks, cfg.MaxBlocks).Draw(t, "blocks")
	maxChain := 0
	if cfg.MaxChainMax > 0 {
		maxChain = rapid.IntRange(cfg.MaxChainMin, cfg.MaxChainMax).Draw(t, "maxchain")
	}
	p := Program{Blocks: blocks, MaxChain: maxChain}
	nops := rapid.IntRange(cfg.MinOps, cfg.MaxOps).Draw(t, "nops")
	size := blocks
	nsnaps := 0
	var names []string
	if rapid.IntRange(0, 99).Draw(t, "punchstart") < cfg.PunchStart {
		p.Ops = append(p.Ops, Op{K: "punch", On: true})
	}
	for len(p.Ops) < nops {
		k := weighted(t, cfg.W, "op")
		switch k {
		case "write":
			p.Ops = append(p.Ops, genWrite(t, size))
		case "read":
			total := int64(size) * 8
			off := rapid.Int64Range(0, total-1).Draw(t, "roff")
			l := rapid.Int64Range(1, min64(total-off, 100)).Draw(t, "rlen")
			p.Ops = append(p.Ops, Op{K: "read", Off: off, Len: l})
		case "snap":
			var name string
			if len(names) > 0 && rapid.IntRange(0, 99).Draw(t, "dup") < cfg.DupNamePct {
				name = rapid.SampledFrom(names).Draw(t, "dupname")
			} else {
				name = fmt.Sprintf("s%d", len(names))
				names = append(names, name)
			}
			user := rapid.IntRange(0, 9).Draw(t, "user") < 4
			p.Ops = append(p.Ops, Op{K: "snap", Name: name, User: user})
			nsnaps++
		case "markrm":
			if nsnaps == 0 {
				continue
			}
			p.Ops = append(p.Ops, Op{K: "markrm", Sel: rapid.IntRange(0, 15).Draw(t, "sel"), On: rapid.Bool().Draw(t, "fullname")})
		case "remove":
			for nsnaps < 3 {
				// the cleaner only ever looks at chains of four or more members
				p.Ops = append(p.Ops, genWrite(t, size))
				name := fmt.Sprintf("s%d", len(names))
				names = append(names, name)
				p.Ops = append(p.Ops, Op{K: "snap", Name: name, User: rapid.IntRange(0, 3).Draw(t, "user4") == 0})
				nsnaps++
			}
			// the cleaner needs a checkpoint: set it (to the latest snapshot) first in most cases
			if rapid.IntRange(0, 3).Draw(t, "cpfirst") > 0 {
				p.Ops = append(p.Ops, Op{K: "setcp", On: true})
			}
			p.Ops = append(p.Ops, Op{K: "remove", Sel: rapid.IntRange(0, 15).Draw(t, "sel")})
		case "rmdirect":
			p.Ops = append(p.Ops, Op{K: "rmdirect", Sel: rapid.IntRange(0, 3).Draw(t, "sel"), On: rapid.Bool().Draw(t, "prep")})
		case "revert":
			if nsnaps == 0 {
				continue
			}
			if rapid.IntRange(0, 9).Draw(t, "unk") == 0 {
				p.Ops = append(p.Ops, Op{K: "revert", Str: rapid.SampledFrom([]string{"volume-snap-nosuch.img", "nosuch", "volume-head-000.img"}).Draw(t, "unkname")})
			} else {
				p.Ops = append(p.Ops, Op{K: "revert", Sel: rapid.IntRange(0, 15).Draw(t, "sel"), On: rapid.IntRange(0, 2).Draw(t, "orphan") == 0})
			}
		case "lunmapseq":
			// the tail of a rebuild or clone: a user snapshot, the replica (re)opened without
			// preload, writes over what the snapshot owns, then UpdateLUNMap - whose merge
			// punches older copies above the latest user snapshot only
			u := fmt.Sprintf("s%d", len(names))
			names = append(names, u)
			nsnaps++
			w := genWrite(t, size)
			p.Ops = append(p.Ops, Op{K: "punch", On: true}, w, Op{K: "snap", Name: u, User: true})
			if rapid.Bool().Draw(t, "autoabove") {
				a := fmt.Sprintf("s%d", len(names))
				names = append(names, a)
				nsnaps++
				p.Ops = append(p.Ops, genWrite(t, size), Op{K: "snap", Name: a})
			}
			p.Ops = append(p.Ops, Op{K: rapid.SampledFrom([]string{"reopen", "reload"}).Draw(t, "how"), On: false})
			ow := w
			ow.Off, ow.Len, ow.Seed = w.Off/8*8, (w.Len+15)/8*8, rapid.IntRange(1, 250).Draw(t, "owseed")
			if ow.Off+ow.Len > int64(size)*8 {
				ow.Len = int64(size)*8 - ow.Off
			}
			p.Ops = append(p.Ops, ow, genWrite(t, size), Op{K: "lunmap"}, genWrite(t, size))
		case "reuseseq":
			// a snapshot is removed, its name is used again, more snapshots follow, and the
			// new snapshot of that name is removed as well - within one life of the process,
			// so whatever the first removal left on the replica's books is still there
			x := fmt.Sprintf("s%d", len(names))
			c1, c2, c3 := fmt.Sprintf("s%d", len(names)+1), fmt.Sprintf("s%d", len(names)+2), fmt.Sprintf("s%d", len(names)+3)
			names = append(names, x, c1, c2, c3)
			nsnaps += 4
			p.Ops = append(p.Ops, genWrite(t, size), Op{K: "snap", Name: x}, genWrite(t, size), Op{K: "snap", Name: c1}, genWrite(t, size), Op{K: "snap", Name: c2},
				Op{K: "setcp", On: true}, Op{K: "remove", Name: x, Sel: rapid.IntRange(0, 15).Draw(t, "sel")},
				genWrite(t, size), Op{K: "snap", Name: x}, genWrite(t, size), Op{K: "snap", Name: c3}, genWrite(t, size), Op{K: "snap", Name: fmt.Sprintf("s%d", len(names))},
				Op{K: "setcp", On: true}, Op{K: "remove", Name: x, Sel: rapid.IntRange(0, 15).Draw(t, "sel2")})
			names = append(names, fmt.Sprintf("s%d", len(names)))
			nsnaps += 3
			if rapid.Bool().Draw(t, "reopenafter") {
				p.Ops = append(p.Ops, Op{K: "reopen", On: rapid.Bool().Draw(t, "preload")})
			}
		case "delpunch":
			// a user snapshot that is already there when the replica is (re)opened, a second
			// one taken afterwards, automatic snapshots on top, a deletion, and then
			// overwrites of what the second user snapshot owns - with reclamation on, the
			// overwrite punches older copies above the latest user snapshot only
			u1, u2 := fmt.Sprintf("s%d", len(names)), fmt.Sprintf("s%d", len(names)+1)
			a1, a2 := fmt.Sprintf("s%d", len(names)+2), fmt.Sprintf("s%d", len(names)+3)
			names = append(names, u1, u2, a1, a2)
			nsnaps += 4
			p.Ops = append(p.Ops, Op{K: "punch", On: true}, genWrite(t, size), Op{K: "snap", Name: u1, User: true})
			if rapid.IntRange(0, 3).Draw(t, "reopenu1") > 0 {
				p.Ops = append(p.Ops, Op{K: rapid.SampledFrom([]string{"reopen", "reload"}).Draw(t, "how"), On: rapid.Bool().Draw(t, "preload")})
			}
			w := genWrite(t, size)
			p.Ops = append(p.Ops, w, Op{K: "snap", Name: u2, User: true}, genWrite(t, size), Op{K: "snap", Name: a1},
				genWrite(t, size), Op{K: "snap", Name: a2}, genWrite(t, size), Op{K: "setcp", On: true},
				Op{K: "remove", Sel: rapid.IntRange(0, 15).Draw(t, "sel")})
			// overwrite what u2 captured (same place, whole blocks around it)
			ow := w
			ow.Off, ow.Len, ow.Seed = w.Off/8*8, (w.Len+15)/8*8, rapid.IntRange(1, 250).Draw(t, "owseed")
			if ow.Off+ow.Len > int64(size)*8 {
				ow.Len = int64(size)*8 - ow.Off
			}
			p.Ops = append(p.Ops, ow, genWrite(t, size))
		case "orphanseq":
			// two snapshots, a revert to the older one (the newer one leaves the live
			// chain, its files stay), possibly a grow and more writes, then a revert
			// to the one left behind
			a, b := fmt.Sprintf("s%d", len(names)), fmt.Sprintf("s%d", len(names)+1)
			names = append(names, a, b)
			p.Ops = append(p.Ops, genWrite(t, size), Op{K: "snap", Name: a, User: true}, genWrite(t, size), Op{K: "snap", Name: b, User: true})
			nsnaps += 2
			if rapid.Bool().Draw(t, "wbefore") {
				p.Ops = append(p.Ops, genWrite(t, size))
			}
			p.Ops = append(p.Ops, Op{K: "revert", Name: a})
			for k := rapid.IntRange(0, 3).Draw(t, "between"); k > 0; k-- {
				switch rapid.IntRange(0, 3).Draw(t, "bk") {
				case 0:
					if cfg.W["resize"] > 0 {
						size += rapid.IntRange(1, 16).Draw(t, "add")
						p.Ops = append(p.Ops, Op{K: "resize", N: int64(size)})
						continue
					}
					fallthrough
				case 1:
					p.Ops = append(p.Ops, Op{K: "reopen", On: rapid.Bool().Draw(t, "preload")})
				default:
					p.Ops = append(p.Ops, genWrite(t, size))
				}
			}
			p.Ops = append(p.Ops, Op{K: "revert", Name: b}, Op{K: "read", Off: 0, Len: int64(size) * 8})
			if rapid.Bool().Draw(t, "reopenafter") {
				p.Ops = append(p.Ops, Op{K: "reopen", On: rapid.Bool().Draw(t, "preload")})
			}
		case "reopen":
			p.Ops = append(p.Ops, Op{K: "reopen", On: rapid.Bool().Draw(t, "preload")})
		case "reload":
			p.Ops = append(p.Ops, Op{K: "reload", On: rapid.Bool().Draw(t, "preload")})
		case "punch":
			p.Ops = append(p.Ops, Op{K: "punch", On: rapid.IntRange(0, 3).Draw(t, "on") > 0})
		case "mode":
			if !cfg.AllowWO {
				continue
			}
			p.Ops = append(p.Ops, Op{K: "mode", Str: rapid.SampledFrom([]string{"RW", "WO", "RW"}).Draw(t, "mode")})
		case "unmap":
			total := int64(size) * 8
			off := rapid.Int64Range(0, total-1).Draw(t, "uoff")
			l := rapid.Int64Range(1, min64(total-off, 64)).Draw(t, "ulen")
			p.Ops = append(p.Ops, Op{K: "unmap", Off: off, Len: l})
		case "resize":
			c := rapid.IntRange(0, 9).Draw(t, "rclass")
			switch {
			case c <= 5:
				add := rapid.IntRange(1, 32).Draw(t, "add")
				size += add
				p.Ops = append(p.Ops, Op{K: "resize", N: int64(size)})
			case c == 6:
				p.Ops = append(p.Ops, Op{K: "resize", N: int64(size)})
			case c <= 8:
				if size > 1 {
					p.Ops = append(p.Ops, Op{K: "resize", N: int64(rapid.IntRange(0, size-1).Draw(t, "smaller"))})
				}
			default:
				p.Ops = append(p.Ops, Op{K: "resize", Str: rapid.SampledFrom([]string{"garbage", "-4096", "12x", "4096q"}).Draw(t, "garbage")})
			}
		case "setcp":
			p.Ops = append(p.Ops, Op{K: "setcp", On: rapid.IntRange(0, 4).Draw(t, "on") > 0})
		case "setrev":
			p.Ops = append(p.Ops, Op{K: "setrev", N: rapid.Int64Range(1, 100000).Draw(t, "rev")})
		case "lunmap":
			p.Ops = append(p.Ops, Op{K: "lunmap"})
		default:
			panic("gen: unknown kind " + k)
		}
	}
	return p
}

// programFeatures classifies a program for the non-triviality rules.
type progFeat struct {
	Snaps, UserSnaps, Writes, WritesAfterSnap, Removes, Reopens, Reloads, Reverts, Reads int
	PunchOn, Resizes, Unmaps, ModeWO                                                     int
	WriteAfterUserSnapWithPunch                                                          bool
	ReadAfterStructural                                                                  bool
}

func features(p Program) progFeat {
	var f progFeat
	punch := false
	userSnapSeen := false
	structural := false
	for _, o := range p.Ops {
		switch o.K {
		case "write":
			f.Writes++
			if f.Snaps > 0 {
				f.WritesAfterSnap++
			}
			if userSnapSeen && punch {
				f.WriteAfterUserSnapWithPunch = true
			}
		case "snap":
			f.Snaps++
			if o.User {
				f.UserSnaps++
				userSnapSeen = true
			}
		case "remove":
			f.Removes++
			structural = true
		case "reopen":
			f.Reopens++
			structural = true
		case "reload":
			f.Reloads++
			structural = true
			punch = true
		case "revert":
			f.Reverts++
			structural = true
		case "read":
			f.Reads++
			if structural {
				f.ReadAfterStructural = true
			}
		case "punch":
			punch = o.On
			if o.On {
				f.PunchOn++
			}
		case "resize":
			f.Resizes++
		case "unmap":
			f.Unmaps++
		case "mode":
			if o.Str == "WO" {
				f.ModeWO++
			}
		}
	}
	return f
}
