"""Per-property run plans for ./check (tests, shards, case counts, budgets)."""

ENGINE_ASSUME = [
    "ext4 scratch file system with FIEMAP, O_DIRECT, punch-hole and SEEK_DATA/SEEK_HOLE (the harness refuses to run otherwise)",
    "verif-tagged hooks only expose state or shorten polling intervals; one shard per run uses the unmodified 1 s hole drainer",
    "the reference model (byte array per volume, snapshot tree, counter) is the specification of the statement",
]

PLAN = {
    "C01": {
        "level": "exploration",
        "rule": ("rapid-generated op programs (write shapes by class, read, snapshot user/auto, cleaner-style removal, revert, "
                 "reopen/reload with and without preload, punching on/off, RW/WO, unmap, resize) run against the real replica.Server "
                 "and a byte-array model, full read compared after every step; non-trivial = >=1 snapshot, >=1 write after it and a "
                 "removal/reopen/reload/revert; distinct = FNV hash of the op program"),
        "assumptions": ENGINE_ASSUME,
        "quick": {"wall": 120, "tests": [
            {"run": "TestC01", "shards": 14, "checks": 120, "timeout": 100, "real_drainer_shards": 0},
            {"run": "TestC01", "shards": 1, "checks": 6, "timeout": 100, "real_drainer_shards": 1},
        ]},
        "thorough": {"wall": 900, "tests": [
            {"run": "TestC01", "shards": 14, "checks": 3000, "timeout": 840},
            {"run": "TestC01", "shards": 2, "checks": 60, "timeout": 840, "real_drainer_shards": 2},
        ]},
    },
}
