package harness

import (
	"fmt"
	"strings"
	"sync"
	"testing"
)

// Native (coverage-guided) fuzzing of the engine executor: the bytes are decoded
// into an op program (3 bytes per operation), the program runs against the real
// replica.Server and the reference model with every oracle of the engine family
// inside the target. The thorough tier builds the test binary with `go test -c
// -fuzz` (coverage instrumentation) and runs these targets for a fixed time;
// go's fuzzer cannot be seeded, the saved crasher (a byte string) and the JSON
// replay written by the target are the reproducible units.

func decodeProgram(in []byte, punchStart bool) Program {
	if len(in) < 2 {
		return Program{Blocks: 4}
	}
	blocks := 4 + int(in[0])%16
	p := Program{Blocks: blocks, MaxChain: 6 + int(in[1])%6}
	if punchStart {
		p.Ops = append(p.Ops, Op{K: "punch", On: true})
	}
	size := blocks
	nsnap := 0
	kinds := []string{"write", "write", "write", "write", "snap", "snap", "remove", "revert", "reopen", "reload", "punch",
		"markrm", "setcp", "resize", "unmap", "lunmap", "read", "write", "snap", "rmdirect"}
	for i := 2; i+2 < len(in) && len(p.Ops) < 48; i += 3 {
		k, a, b := kinds[int(in[i])%len(kinds)], int64(in[i+1]), int64(in[i+2])
		total := int64(size) * 8
		switch k {
		case "write":
			off := a % total
			// the second argument selects the shape: sub-block, block, multi-block, tail
			l := 1 + b%24
			if b >= 192 {
				off = off / 8 * 8
				l = 8 * (1 + b%4)
			}
			if off+l > total {
				l = total - off
			}
			p.Ops = append(p.Ops, Op{K: "write", Off: off, Len: l, Seed: 1 + int(b)%250})
		case "read":
			off := a % total
			p.Ops = append(p.Ops, Op{K: "read", Off: off, Len: 1 + b%(total-off)})
		case "snap":
			p.Ops = append(p.Ops, Op{K: "snap", Name: fmt.Sprintf("f%d", nsnap), User: a%3 == 0})
			nsnap++
		case "remove":
			if nsnap >= 3 {
				if a%4 > 0 {
					p.Ops = append(p.Ops, Op{K: "setcp", On: true})
				}
				p.Ops = append(p.Ops, Op{K: "remove", Sel: int(b) % 16})
			}
		case "rmdirect":
			p.Ops = append(p.Ops, Op{K: "rmdirect", Sel: int(a) % 4, On: b%2 == 0})
		case "revert":
			if nsnap > 0 {
				p.Ops = append(p.Ops, Op{K: "revert", Sel: int(a) % 16})
			}
		case "reopen", "reload":
			p.Ops = append(p.Ops, Op{K: k, On: a%2 == 0})
		case "punch":
			p.Ops = append(p.Ops, Op{K: "punch", On: a%4 > 0})
		case "markrm":
			if nsnap > 0 {
				p.Ops = append(p.Ops, Op{K: "markrm", Sel: int(a) % 16, On: b%2 == 0})
			}
		case "setcp":
			p.Ops = append(p.Ops, Op{K: "setcp", On: a%5 > 0})
		case "resize":
			if a%4 == 0 {
				p.Ops = append(p.Ops, Op{K: "resize", N: int64(size) - 1 - b%int64(size)})
			} else {
				size += 1 + int(b)%8
				p.Ops = append(p.Ops, Op{K: "resize", N: int64(size)})
			}
		case "unmap":
			off := a % total
			p.Ops = append(p.Ops, Op{K: "unmap", Off: off, Len: 1 + b%(total-off)})
		case "lunmap":
			p.Ops = append(p.Ops, Op{K: "lunmap"})
		}
	}
	return p
}

var (
	fuzzRecMu sync.Mutex
	fuzzRecs  = map[string]*Recorder{}
)

func fuzzRecorder(prop, test string) *Recorder {
	fuzzRecMu.Lock()
	defer fuzzRecMu.Unlock()
	if r := fuzzRecs[test]; r != nil {
		return r
	}
	r := NewRecorder(prop, test)
	fuzzRecs[test] = r
	return r
}

func fuzzEngine(f *testing.F, prop, test string, punchStart bool, cfg func(*Engine)) {
	// seeds: a plain history, a deletion-heavy one, one with reverts and reopen
	f.Add([]byte{8, 2, 0, 0, 200, 4, 0, 0, 1, 9, 7, 4, 3, 0, 0, 40, 200, 8, 1, 0, 16, 0, 0})
	f.Add([]byte{12, 3, 0, 3, 5, 4, 1, 0, 0, 20, 9, 4, 0, 0, 0, 33, 210, 4, 2, 0, 6, 1, 1, 0, 50, 3, 11, 1, 0, 6, 1, 5, 8, 0, 0})
	f.Add([]byte{6, 1, 4, 0, 0, 0, 9, 220, 4, 1, 0, 0, 17, 5, 7, 0, 0, 0, 1, 12, 9, 1, 0, 13, 1, 3, 0, 2, 2, 16, 0, 0})
	f.Fuzz(func(t *testing.T, in []byte) {
		if len(in) > 160 {
			return
		}
		p := decodeProgram(in, punchStart)
		if len(p.Ops) == 0 {
			return
		}
		e, fl, err := runProgramRecover(p, cfg)
		if e != nil {
			defer e.Destroy()
		}
		if err != nil {
			t.Skip("harness: " + err.Error())
		}
		if fl == nil || !fl.Has(prop) {
			return
		}
		rec := fuzzRecorder(prop, test)
		detail := fl.Detail + "\ntrace:\n  " + strings.Join(tail(e.Trace, 40), "\n  ")
		if rec.Fail(prop, prop+"|"+fl.Sig, detail, p) {
			return // a listed known finding
		}
		t.Fatalf("VIOLATION %s %s: %s", prop, fl.Sig, detail)
	})
}

// FuzzC01Ops — reads return the last write (engine programs from bytes).
func FuzzC01Ops(f *testing.F) { fuzzEngine(f, "C01", "FuzzC01Ops", false, nil) }

// FuzzC06Ops — user snapshots are immutable (reclamation on from the start,
// forbidden deletion candidates followed through).
func FuzzC06Ops(f *testing.F) {
	fuzzEngine(f, "C06", "FuzzC06Ops", true, func(e *Engine) { e.FollowInvalidCandidates = true })
}

// FuzzC12Ops — the chain stays a well-formed path and survives reopen.
func FuzzC12Ops(f *testing.F) { fuzzEngine(f, "C12", "FuzzC12Ops", false, nil) }
