package harness

import (
	"fmt"
	"runtime/debug"
	"strings"
	"testing"

	"pgregory.net/rapid"
)

// runEngineProperty is the common driver of the engine-family properties:
// generate a program, run it against the real replica engine and the model,
// report only violations of oracles that belong to prop.
func runEngineProperty(t *testing.T, prop, test string, gen func(*rapid.T) Program,
	nontrivial func(Program, *Engine) bool, engCfg func(*Engine)) {
	rec := NewRecorder(prop, test)
	defer rec.Flush(t)

	runOne := func(p Program, fatalf func(string, ...interface{})) {
		e, f, err := runProgramRecover(p, engCfg)
		if e != nil {
			defer e.Destroy()
		}
		if err != nil {
			fatalf("HARNESS ERROR: %v", err)
			return
		}
		labels := []string{}
		for k, v := range e.Labels {
			if v > 0 && !strings.HasPrefix(k, "op:") {
				labels = append(labels, k)
			}
		}
		if e.M.PunchEver {
			labels = append(labels, "punch-ever-on")
		}
		if !e.Fast {
			labels = append(labels, "real-drainer")
		}
		rec.Case(p, nontrivial(p, e), labels...)
		if f != nil {
			if f.Has(prop) {
				detail := f.Detail + "\ntrace:\n  " + strings.Join(tail(e.Trace, 40), "\n  ")
				if rec.Fail(prop, prop+"|"+f.Sig, detail, p) {
					return
				}
				fatalf("VIOLATION %s %s: %s", prop, f.Sig, detail)
			} else {
				rec.Label("crossfinding:"+strings.Join(f.Props, "+")+":"+f.Sig, 1)
				rec.Cross(f.String()+"\ntrace:\n  "+strings.Join(tail(e.Trace, 40), "\n  "), p)
			}
		}
	}

	var rp Program
	if isReplay, err := LoadReplay(&rp); isReplay {
		if err != nil {
			t.Fatalf("HARNESS ERROR: cannot load replay: %v", err)
		}
		runOne(rp, t.Fatalf)
		return
	}
	// replay tier: committed regression inputs first (shard 0 only)
	if firstShard() {
		for _, rf := range regressFiles(test) {
			var c Program
			if err := loadCaseFile(rf, &c); err != nil {
				t.Fatalf("HARNESS ERROR: bad regression file %s: %v", rf, err)
			}
			rec.Label("regress-replayed", 1)
			runOne(c, t.Fatalf)
		}
	}
	checkBudget(t, func(rt *rapid.T) {
		p := gen(rt)
		runOne(p, rt.Fatalf)
	})
}

func tail(s []string, n int) []string {
	if len(s) > n {
		return s[len(s)-n:]
	}
	return s
}

var _ = fmt.Sprintf

// runProgramRecover turns a panic of the code under test into a violation of
// whatever property is being checked: an operation that panics did not behave.
func runProgramRecover(p Program, cfg func(*Engine)) (e *Engine, f *Fail, err error) {
	var eng *Engine
	defer func() {
		if r := recover(); r != nil {
			if s, ok := r.(error); ok && strings.HasPrefix(s.Error(), "hole barrier") {
				panic(r)
			}
			last := "?"
			if eng != nil {
				last = eng.lastOp
			}
			e = eng
			f = &Fail{Props: []string{"C01", "C06", "C10", "C11", "C12", "C16", "C08"}, Sig: "panic|after=" + last,
				Detail: fmt.Sprintf("the replica engine panicked during %s: %v\n%s", last, r, headStr(string(debug.Stack()), 3000))}
			err = nil
		}
	}()
	eng, err = NewEngine(p)
	if err != nil {
		return nil, nil, err
	}
	if cfg != nil {
		cfg(eng)
	}
	for i, op := range p.Ops {
		if f := eng.Step(i, op); f != nil {
			return eng, f, nil
		}
	}
	return eng, eng.Finish(), nil
}
