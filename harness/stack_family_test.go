package harness

import (
	"testing"

	"pgregory.net/rapid"
)

var allRF = []int{1, 2, 3, 3, 4, 5}

// ---- C02 -------------------------------------------------------------------

var c02Cfg = SGenCfg{RFs: allRF, MinOps: 4, MaxOps: 24, FaultPct: 55, SlowFaults: true, MaxSlow: 2,
	W: map[string]int{"write": 44, "sync": 8, "unmap": 8, "read": 8, "readd": 10, "promote": 4, "remove": 2, "iorace": 3, "addwrite": 4}}

func TestC02(t *testing.T) {
	runStackProperty(t, "C02", "TestC02", func(rt *rapid.T) SProgram { return GenSProgram(rt, c02Cfg) },
		func(p SProgram, x *SExec) bool {
			return x.Labels["write:acked-with-failures"] > 0 && (x.Labels["write:refused-with-failures"] > 0 || x.Labels["probe:readonly"] > 0)
		})
}

// ---- C03 -------------------------------------------------------------------

var c03Cfg = SGenCfg{PingsPct: 25, RFs: allRF, MinOps: 5, MaxOps: 28, FaultPct: 35, SlowFaults: false, RestFail: true,
	W: map[string]int{"write": 24, "sync": 6, "unmap": 4, "read": 4, "readd": 14, "add": 4, "promote": 8, "remove": 10,
		"pingfail": 4, "nodedrop": 3, "snapshot": 8, "boot": 2, "reconnect": 3, "setmode": 4, "setmodeseq": 2, "ctlrevert": 4, "iorace": 6, "loneboot": 2, "revertfail": 4}}

func TestC03(t *testing.T) {
	runStackProperty(t, "C03", "TestC03", func(rt *rapid.T) SProgram { return GenSProgram(rt, c03Cfg) },
		func(p SProgram, x *SExec) bool { return x.crossedDown && x.crossedUp })
}

// ---- C04 -------------------------------------------------------------------

var c04Cfg = SGenCfg{RFs: []int{2, 3, 3, 4, 5}, MinOps: 5, MaxOps: 26, FaultPct: 45, SlowFaults: true, MaxSlow: 1,
	W: map[string]int{"write": 22, "read": 40, "readd": 12, "add": 4, "promote": 5, "remove": 5, "nodedrop": 2, "verifyonly": 5, "snapshot": 3, "loneboot": 4, "addwrite": 5}}

func TestC04(t *testing.T) {
	runStackProperty(t, "C04", "TestC04", func(rt *rapid.T) SProgram { return GenSProgram(rt, c04Cfg) },
		func(p SProgram, x *SExec) bool {
			return x.Labels["read:with-WO-attached"] > 0 || x.Labels["read:failover"] > 0
		})
}

// ---- C05 -------------------------------------------------------------------

var c05Cfg = SGenCfg{PingsPct: 60, RFs: []int{3, 3, 5, 5, 4}, MinOps: 5, MaxOps: 22, FaultPct: 40, SlowFaults: true, MaxSlow: 2,
	W: map[string]int{"write": 30, "sync": 6, "unmap": 8, "read": 16, "readd": 10, "promote": 3, "remove": 4, "pingfail": 8, "nodedrop": 8, "errio": 6, "iorace": 3, "loneboot": 3}}

func TestC05(t *testing.T) {
	runStackProperty(t, "C05", "TestC05", func(rt *rapid.T) SProgram { return GenSProgram(rt, c05Cfg) },
		func(p SProgram, x *SExec) bool {
			return x.Labels["write:acked-with-failures"]+x.Labels["read:failover"]+x.Labels["pingfail"]+x.Labels["nodedrop"]+x.Labels["sync:acked-with-failures"]+x.Labels["unmap:acked-with-failures"] > 0
		})
}

// ---- C18 -------------------------------------------------------------------

var c18Cfg = SGenCfg{PingsPct: 25, RFs: allRF, MinOps: 5, MaxOps: 30, FaultPct: 35, SlowFaults: false, AllowDup: true, RestFail: true,
	W: map[string]int{"write": 18, "sync": 3, "read": 10, "readd": 10, "add": 14, "promote": 8, "remove": 10,
		"pingfail": 3, "nodedrop": 3, "snapshot": 6, "setmode": 6, "setmodeseq": 5, "boot": 4, "reconnect": 6, "errio": 3, "addrace": 5, "ctlrevert": 3, "loneboot": 2, "statsrace": 4, "addlate": 4}}

func TestC18(t *testing.T) {
	runStackProperty(t, "C18", "TestC18", func(rt *rapid.T) SProgram { return GenSProgram(rt, c18Cfg) },
		func(p SProgram, x *SExec) bool {
			return x.Labels["add:ok"] > 0 && (x.Labels["op:remove"] > 0 || x.Labels["op:setmode"] > 0)
		})
}

// ---- C13 -------------------------------------------------------------------

var c13Cfg = SGenCfg{RFs: []int{1, 2, 2, 3, 3}, MinOps: 3, MaxOps: 14, FaultPct: 0, RestFail: true, Blocks: 12, NoSpare: true,
	W: map[string]int{"race": 42, "snapshot": 12, "readd": 16, "remove": 3, "nodedrop": 3, "promotecp": 4, "read": 4, "snaprace": 7}}

func TestC13(t *testing.T) {
	runStackProperty(t, "C13", "TestC13", func(rt *rapid.T) SProgram { return GenSProgram(rt, c13Cfg) },
		func(p SProgram, x *SExec) bool {
			return x.Labels["race:snapshot-ok"] > 0
		})
}

// ---- C07 (merge tier) --------------------------------------------------------

var c07Cfg = SGenCfg{RFs: []int{2, 3, 3}, MinOps: 3, MaxOps: 14, FaultPct: 25, Blocks: 16, FillPct: 70,
	W: map[string]int{"write": 38, "snapshot": 10, "rebuildnew": 22, "remove": 8, "nodedrop": 4, "read": 6, "sync": 2, "addwrite": 4, "addrace": 4, "staleboot": 4}}

func TestC07(t *testing.T) {
	runStackProperty(t, "C07", "TestC07", func(rt *rapid.T) SProgram { return GenSProgram(rt, c07Cfg) },
		func(p SProgram, x *SExec) bool {
			return x.Labels["rebuild:promoted"] > 0 && x.Labels["write:acked"] > 0
		})
}

// ---- C16 (through the controller) ------------------------------------------------

var c16CtlCfg = SGenCfg{RFs: []int{1, 2, 3}, MinOps: 3, MaxOps: 16, FaultPct: 0, Blocks: 8,
	W: map[string]int{"write": 34, "read": 14, "ctlresize": 24, "snapshot": 8, "readd": 10, "remove": 6, "addresize": 6, "resizerace": 6}}

func TestC16Controller(t *testing.T) {
	runStackProperty(t, "C16", "TestC16Controller", func(rt *rapid.T) SProgram { return GenSProgram(rt, c16CtlCfg) },
		func(p SProgram, x *SExec) bool { return x.Labels["ctlresize:grow"] > 0 && x.Labels["write:acked"] > 0 })
}

// ---- C10 (promotion clause) ------------------------------------------------------

var c10StackCfg = SGenCfg{RFs: []int{2, 3, 3}, MinOps: 4, MaxOps: 18, FaultPct: 30, Blocks: 8, SlowFaults: true, MaxSlow: 2,
	W: map[string]int{"write": 50, "readd": 10, "readdcycle": 14, "promote": 6, "remove": 6, "nodedrop": 4, "read": 4, "sync": 2, "staleboot": 3}}

// TestC10Promotion — a promoted replica reports the source's count; all RW replicas agree.
func TestC10Promotion(t *testing.T) {
	runStackProperty(t, "C10", "TestC10Promotion", func(rt *rapid.T) SProgram { return GenSProgram(rt, c10StackCfg) },
		func(p SProgram, x *SExec) bool { return x.Labels["promote:ok"] > 0 && x.Labels["write:acked"] > 0 })
}

// TestC07Window — the same programs with the repository's own debug hook: the
// foreground writes land exactly between UpdateLUNMap's preload and its merge.
func TestC07Window(t *testing.T) {
	runStackProperty(t, "C07", "TestC07Window", func(rt *rapid.T) SProgram { return GenSProgram(rt, c07Cfg) },
		func(p SProgram, x *SExec) bool {
			return x.Labels["rebuild:promoted"] > 0 && x.Labels["rebuild:writes-inside-lunmap-window"] > 0
		})
}

// ---- C06 (revert of the volume through the controller) ----------------------------

var c06VolCfg = SGenCfg{RFs: []int{1, 2, 3, 3}, MinOps: 5, MaxOps: 22, FaultPct: 10, Blocks: 12, RestFail: true, NoSpare: true, FillPct: 50,
	W: map[string]int{"write": 36, "snapshot": 22, "ctlrevert": 20, "read": 8, "readd": 9, "remove": 3, "nodedrop": 2, "ctldelsnap": 2}}

// TestC06Volume — Controller.Revert: the volume and every RW replica read back
// exactly the image the snapshot captured; replicas that fail the request are
// marked failed; later snapshots, rebuilds and reverts go on from there.
func TestC06Volume(t *testing.T) {
	runStackProperty(t, "C06", "TestC06Volume", func(rt *rapid.T) SProgram { return GenSProgram(rt, c06VolCfg) },
		func(p SProgram, x *SExec) bool { return x.Labels["ctlrevert:ok"] > 0 && x.Labels["write:acked"] > 0 })
}

// ---- C13 (checkpoint across volume reverts) -------------------------------------------

// The race programs above have no volume revert (the writers' stamps assume a
// history that only moves forward); the checkpoint clauses are checked across
// reverts, rebuilds and departures by programs without racing writers.
var c13RevertCfg = SGenCfg{RFs: []int{1, 2, 2, 3}, MinOps: 5, MaxOps: 20, FaultPct: 0, RestFail: true, Blocks: 12, NoSpare: true,
	W: map[string]int{"write": 30, "snapshot": 20, "ctlrevert": 14, "readd": 16, "remove": 4, "nodedrop": 3, "promotecp": 6, "read": 4, "snaprace": 3, "unmap": 8, "unmapsnap": 6}}

func TestC13Revert(t *testing.T) {
	runStackProperty(t, "C13", "TestC13Revert", func(rt *rapid.T) SProgram { return GenSProgram(rt, c13RevertCfg) },
		func(p SProgram, x *SExec) bool { return x.Labels["ctlrevert:ok"] > 0 && x.Labels["promote:ok"] > 0 })
}

// ---- C15 (the detach clause, through the controller) ------------------------------

var c15StackCfg = SGenCfg{PingsPct: 50, RFs: []int{2, 3, 3}, MinOps: 4, MaxOps: 14, FaultPct: 35, SlowFaults: true, MaxSlow: 2, NoSpare: true,
	W: map[string]int{"write": 30, "read": 12, "sync": 4, "nodedrop": 22, "pingfail": 8, "readd": 18}}

// TestC15Detach — a replica whose data connection breaks (while idle or with a
// request in flight), whose request exceeds its deadline or whose ping fails is
// detached; the request in flight ends promptly.
func TestC15Detach(t *testing.T) {
	runStackProperty(t, "C15", "TestC15Detach", func(rt *rapid.T) SProgram { return GenSProgram(rt, c15StackCfg) },
		func(p SProgram, x *SExec) bool { return x.Labels["nodedrop"]+x.Labels["pingfail"] > 0 })
}
