package harness

import (
	"fmt"
	"strings"
	"testing"

	"github.com/openebs/jiva/backend/dynamic"
	"github.com/openebs/jiva/backend/remote"
	"github.com/openebs/jiva/controller"
	"github.com/openebs/jiva/types"
	"pgregory.net/rapid"
)

// E2ECase: a faulty write history, then every replica stops, the controller
// restarts and the replicas register again in a generated order.
type E2ECase struct {
	Hist   SProgram `json:"hist"`
	Kill   []bool   `json:"kill"`   // per node: abandoned without close (true) or closed cleanly
	Order  []int    `json:"order"`  // registration order (a permutation of the nodes)
	Absent []int    `json:"absent"` // nodes that do not come back
}

// RestartController replaces the controller by a fresh one (same RF, same nodes).
func (st *Stack) RestartController() {
	st.C.Shutdown()
	st.Front = &fakeFrontend{}
	st.Fac = &stackFactory{real: dynamic.New(map[string]types.BackendFactory{"tcp": remote.New()}), SigErr: map[string]int{}, Dead: map[string]bool{}}
	st.C = controller.NewController(
		controller.WithName("vol"),
		controller.WithFrontend(st.Front, ""),
		controller.WithBackend(st.Fac),
		controller.WithRF(st.RF),
		controller.WithClusterIP(""),
	)
}

func runE2E(ec E2ECase) (*Fail, []string, map[string]int, error) {
	x, f, err := RunSProgram(ec.Hist)
	if x != nil {
		defer x.Destroy()
	}
	if err != nil {
		return nil, nil, nil, err
	}
	labels := map[string]int{}
	for k, v := range x.Labels {
		labels[k] = v
	}
	if f != nil {
		// the history itself broke another property's oracle: not this check's subject
		labels["history-crossfinding:"+f.Sig]++
		return nil, x.Trace, labels, nil
	}
	st := x.St
	tr := func(s string, a ...interface{}) { x.Trace = append(x.Trace, fmt.Sprintf(s, a...)) }
	// everything stops
	st.C.Shutdown()
	for i, n := range st.Nodes {
		kill := i < len(ec.Kill) && ec.Kill[i]
		var err error
		if kill {
			err = n.Restart2Abandon()
		} else {
			err = n.Restart()
		}
		if err != nil {
			return nil, nil, nil, err
		}
	}
	st.RestartController()
	absent := map[int]bool{}
	for _, a := range ec.Absent {
		absent[a%len(st.Nodes)] = true
	}
	// never let so many stay away that no majority can register
	for len(st.Nodes)-len(absent) < st.RF/2+1 {
		for a := range absent {
			delete(absent, a)
			break
		}
	}
	started := -1
	var desc []string
	for _, oi := range ec.Order {
		i := oi % len(st.Nodes)
		if absent[i] {
			continue
		}
		rev, _ := st.Nodes[i].S.GetRevisionCounter()
		state, _ := st.Nodes[i].S.PrevStatus()
		desc = append(desc, fmt.Sprintf("n%d(rev %d,%s,model %q)", i, rev, state, x.Mode[i]))
		s, err := st.Boot(i)
		tr("register n%d rev=%d state=%s -> started=n%d err=%v", i, rev, state, s, err)
		if err != nil {
			return fail("restart|signalled-replica-cannot-start", fmt.Sprintf("%v (registered so far: %s)", err, strings.Join(desc, " ")), "C09"), x.Trace, labels, nil
		}
		if s >= 0 {
			started = s
			break
		}
	}
	if started < 0 {
		labels["restart:no-majority-or-no-candidate"]++
		return nil, x.Trace, labels, nil
	}
	labels["restart:started"]++
	buf := make([]byte, x.Live.size())
	n, err := st.C.ReadAt(buf, 0)
	if err != nil || n != len(buf) {
		return fail("restart|read-failed", fmt.Sprintf("read after restart: n=%d err=%v", n, err), "C09"), x.Trace, labels, nil
	}
	if d := x.Live.Diff(buf, 0); d != "" && x.subBlockHit(started, buf, 0) {
		// the elected replica took a write that is not block aligned while it was
		// rebuilding: its image has been off since its promotion (the known finding of
		// C07, DESIGN 7.2) - not what this check is about
		labels["restart:elected-replica-carries-the-known-sub-block-finding"]++
		return nil, x.Trace, labels, nil
	}
	if d := x.Live.Diff(buf, 0); d != "" {
		// which acknowledged write is missing, and how many up-to-date (RW)
		// replicas held it when it was acknowledged?
		cause := "held-by-a-majority-of-RF"
		pos := firstDiff(x.Live, buf)
		for k := len(x.Acked) - 1; k >= 0; k-- {
			a := x.Acked[k]
			if pos >= a.Off && pos < a.Off+a.Len {
				if a.ARW < st.RF/2+1 {
					cause = "acked-with-fewer-than-a-majority-of-RF-up-to-date-replicas"
				}
				d += fmt.Sprintf("; the lost write (off=%d len=%d) was applied by %v of W=%v, %d of them RW, RF=%d", a.Off, a.Len, a.A, a.W, a.ARW, st.RF)
				break
			}
		}
		return fail("restart|acknowledged-write-lost|"+cause, fmt.Sprintf("volume restarted on n%d but does not serve every acknowledged write: %s; registered: %s", started, d, strings.Join(desc, " ")), "C09"), x.Trace, labels, nil
	}
	if len(x.Acked) > 0 {
		labels["restart:with-acked-writes"]++
	}
	return nil, x.Trace, labels, nil
}

var c09HistCfg = SGenCfg{NoSpare: true, RFs: []int{1, 2, 3, 3, 3, 5}, MinOps: 3, MaxOps: 18, FaultPct: 50, SlowFaults: false,
	W: map[string]int{"write": 50, "sync": 3, "read": 4, "readd": 12, "promote": 4, "remove": 4, "nodedrop": 4, "add": 3}}

func TestC09EndToEnd(t *testing.T) { runE2EProperty(t, "C09", "TestC09EndToEnd") }

// TestC02Restart: the same histories, reported under C02 when an acknowledged
// write is not served after the restart (a replica in service at a later time
// must hold every acknowledged write): the failing-disk outcome (DISKERR) makes
// a replica fail inside Replica.WriteAt, and the restart shows what that
// replica kept on disk about the write it did not apply.
func TestC02Restart(t *testing.T) { runE2EProperty(t, "C02", "TestC02Restart") }

// TestC05Restart: the same for C05's last clauses - the failure of a minority loses
// no acknowledged data, and a replica that was detached for failing a write does
// not come back as an up-to-date copy without a rebuild.
func TestC05Restart(t *testing.T) { runE2EProperty(t, "C05", "TestC05Restart") }

func runE2EProperty(t *testing.T, prop, test string) {
	rec := NewRecorder(prop, test)
	defer rec.Flush(t)
	run := func(ec E2ECase, fatalf func(string, ...interface{})) {
		f, trace, labels, err := runE2E(ec)
		if err != nil {
			fatalf("HARNESS ERROR: %v", err)
			return
		}
		var ls []string
		for k := range labels {
			if !strings.HasPrefix(k, "op:") {
				ls = append(ls, k)
			}
		}
		rec.Case(ec, labels["restart:with-acked-writes"] > 0 && labels["write:with-failures"] > 0, ls...)
		if f != nil {
			if prop == "C05" && strings.Contains(f.Sig, "acked-with-fewer-than-a-majority-of-RF") {
				// more than a minority of the configured replicas had failed or were behind
				// when that write was acknowledged: outside C05's antecedent (the C02/C09 finding)
				rec.Label("crossfinding:"+f.Sig, 1)
				return
			}
			if prop != "C09" && !strings.Contains(f.Sig, "acknowledged-write-lost") {
				rec.Label("crossfinding:"+f.Sig, 1)
				return
			}
			detail := f.Detail + "\ntrace:\n  " + strings.Join(tail(trace, 40), "\n  ")
			if rec.Fail(prop, prop+"|"+f.Sig, detail, ec) {
				return
			}
			fatalf("VIOLATION %s %s: %s", prop, f.Sig, detail)
		}
	}
	var rp E2ECase
	if isReplay, err := LoadReplay(&rp); isReplay {
		if err != nil || len(rp.Order) == 0 {
			t.Skip("replay file is for another test")
		}
		run(rp, t.Fatalf)
		return
	}
	if firstShard() {
		for _, rf := range regressFiles(test) {
			var c E2ECase
			if err := loadCaseFile(rf, &c); err != nil {
				t.Fatalf("HARNESS ERROR: bad regression file %s: %v", rf, err)
			}
			rec.Label("regress-replayed", 1)
			run(c, t.Fatalf)
		}
	}
	checkBudget(t, func(rt *rapid.T) {
		h := GenSProgram(rt, c09HistCfg)
		var laggards []int
		if prop != "C09" && h.Nodes >= 3 && rapid.IntRange(0, 2).Draw(rt, "lastwrite") > 0 {
			// the last thing the volume sees is a write during which a minority of
			// the replicas cannot write to their disk
			total := int64(h.Blocks) * 8
			off := rapid.Int64Range(0, total-1).Draw(rt, "off")
			out := make([]Outcome, h.Nodes)
			for j := range out {
				out[j] = OK
			}
			perm := rapid.Permutation(seqInts(h.Nodes)).Draw(rt, "perm")
			for _, j := range perm[:rapid.IntRange(1, (h.Nodes-1)/2).Draw(rt, "k")] {
				out[j] = DISKERR
				laggards = append(laggards, j)
			}
			h.Ops = append(h.Ops, SOp{K: "write", Off: off, Len: rapid.Int64Range(1, min64(total-off, 24)).Draw(rt, "len"), Seed: rapid.IntRange(1, 250).Draw(rt, "seed"), Out: out})
		}
		ec := E2ECase{Hist: h}
		for i := 0; i < h.Nodes; i++ {
			ec.Kill = append(ec.Kill, rapid.Bool().Draw(rt, "kill"))
		}
		ec.Order = rapid.Permutation(seqInts(h.Nodes)).Draw(rt, "order")
		if len(laggards) > 0 && rapid.Bool().Draw(rt, "laggardsfirst") {
			o := append([]int{}, laggards...)
			for _, i := range ec.Order {
				if !containsInt(laggards, i) {
					o = append(o, i)
				}
			}
			ec.Order = o
		}
		if rapid.IntRange(0, 2).Draw(rt, "someabsent") == 0 {
			ec.Absent = rapid.SliceOfN(rapid.IntRange(0, h.Nodes-1), 1, 2).Draw(rt, "absent")
		}
		run(ec, rt.Fatalf)
	})
}

func firstDiff(im *Image, got []byte) int64 {
	for i := range got {
		if !im.Indet[int64(i)/Sec] && got[i] != im.B[i] {
			return int64(i)
		}
	}
	return -1
}

func containsInt(l []int, x int) bool {
	for _, v := range l {
		if v == x {
			return true
		}
	}
	return false
}
