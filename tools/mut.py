#!/usr/bin/env python3
"""tools/mut.py <file-in-repo> <old> <new> -- <check args...>
Apply a one-off textual mutation to /repo, run ./check, revert. For sensitivity testing only."""
import subprocess, sys
i = sys.argv.index("--")
f, old, new = sys.argv[1:4]
p = "/repo/" + f
s = open(p).read()
assert s.count(old) >= 1, "pattern not found"
open(p, "w").write(s.replace(old, new, 1))
try:
    r = subprocess.run(["./check"] + sys.argv[i+1:], cwd="/verif", stdout=subprocess.PIPE, stderr=subprocess.STDOUT, text=True)
    out = r.stdout
    lines = [l for l in out.splitlines() if l.startswith("VIOLATION") or l.startswith("  signature") or "rc=" in l or "BUILD FAILED" in l or "BROKEN" in l]
    print("\n".join(lines[:8]))
finally:
    subprocess.run(["git", "-C", "/repo", "checkout", "--", f])
