package harness

import (
	"encoding/json"
	"fmt"
	"hash/fnv"
	"os"
	"path/filepath"
	"sort"
	"strconv"
	"sync"
	"testing"
	"time"

	"pgregory.net/rapid"
)

// Recorder collects per-run evidence and the (shrunk) violation of one
// property test and writes them where the driver picks them up.
type Recorder struct {
	mu        sync.Mutex
	Prop      string
	Test      string
	evals     int
	hashes    map[string]bool
	labels    map[string]int
	samples   []interface{}
	extra     map[string]interface{}
	pending   *Violation
	knownHits map[string]string
	known     []KnownFinding
	excluded  int
	tripped   string
}

type Violation struct {
	Property  string      `json:"property"`
	Signature string      `json:"signature"`
	Detail    string      `json:"detail"`
	Replay    string      `json:"replay"`
	Shard     int         `json:"shard"`
	Test      string      `json:"test"`
	Case      interface{} `json:"-"`
}

type KnownFinding struct {
	Property  string `json:"property"`
	Status    string `json:"status"`
	Signature string `json:"signature"`
	What      string `json:"what"`
	Commit    string `json:"commit,omitempty"`
}

func envInt(k string, def int) int {
	if v := os.Getenv(k); v != "" {
		if n, err := strconv.Atoi(v); err == nil {
			return n
		}
	}
	return def
}

func shardNo() int { return envInt("VERIF_SHARD", 0) }

// firstShard reports whether this process is the first shard of its test
// (the one that replays the committed regression inputs).
func firstShard() bool {
	return os.Getenv("VERIF_FIRST_SHARD") == "1" || (os.Getenv("VERIF_OUT") == "" && shardNo() == 0)
}

func NewRecorder(prop, test string) *Recorder {
	r := &Recorder{Prop: prop, Test: test, hashes: map[string]bool{}, labels: map[string]int{},
		extra: map[string]interface{}{}, knownHits: map[string]string{}}
	if p := os.Getenv("VERIF_KNOWN"); p != "" {
		if b, err := os.ReadFile(p); err == nil {
			_ = json.Unmarshal(b, &r.known)
		}
	}
	return r
}

func hashOf(v interface{}) string {
	b, _ := json.Marshal(v)
	h := fnv.New64a()
	h.Write(b)
	return strconv.FormatUint(h.Sum64(), 16)
}

// Case records one executed case.
func (r *Recorder) Case(c interface{}, nontrivial bool, labels ...string) {
	r.mu.Lock()
	defer r.mu.Unlock()
	r.evals++
	if nontrivial {
		r.hashes[hashOf(c)] = true
		r.labels["nontrivial"]++
	}
	for _, l := range labels {
		r.labels[l]++
	}
	if len(r.samples) < 3 && (nontrivial || r.evals > 20) {
		r.samples = append(r.samples, c)
	}
}

// Cross writes a violation of another property's oracle to a side file (for triage).
func (r *Recorder) Cross(detail string, c interface{}) {
	out := os.Getenv("VERIF_OUT")
	if out == "" {
		return
	}
	f, err := os.OpenFile(filepath.Join(out, fmt.Sprintf("xfind-%d-%s.jsonl", shardNo(), r.Test)), os.O_CREATE|os.O_APPEND|os.O_WRONLY, 0644)
	if err != nil {
		return
	}
	l, _ := json.Marshal(map[string]interface{}{"detail": detail, "case": c})
	f.Write(append(l, '\n'))
	f.Close()
}

func (r *Recorder) Label(l string, n int) {
	r.mu.Lock()
	r.labels[l] += n
	r.mu.Unlock()
}

func (r *Recorder) Extra(k string, v interface{}) {
	r.mu.Lock()
	r.extra[k] = v
	r.mu.Unlock()
}

func (r *Recorder) AddExtra(k string, n int) {
	r.mu.Lock()
	if old, ok := r.extra[k].(int); ok {
		r.extra[k] = old + n
	} else {
		r.extra[k] = n
	}
	r.mu.Unlock()
}

// Known returns the "what" text if the signature is a listed known finding.
func (r *Recorder) Known(sig string) (string, bool) {
	for _, k := range r.known {
		if k.Signature == sig {
			return k.What, true
		}
	}
	return "", false
}

// Fail is called by a property when its oracle is violated. It returns true
// when the violation is a listed known finding (the case must then be treated
// as passed); otherwise it remembers the violation (the last one remembered is
// the shrunk one, rapid re-runs the minimal case last).
func (r *Recorder) Fail(prop, sig, detail string, c interface{}) (known bool) {
	r.mu.Lock()
	defer r.mu.Unlock()
	if what, ok := r.Known(sig); ok {
		r.knownHits[sig] = what
		r.excluded++
		return true
	}
	r.pending = &Violation{Property: prop, Signature: sig, Detail: detail, Case: c, Shard: shardNo(), Test: r.Test}
	if r.tripped == "" {
		// the first failure is written out at once: should the process be stopped
		// while rapid is still re-running the case (slow system tests), the
		// violation is not lost; Flush rewrites the record with the final case
		r.tripped = fmt.Sprintf("VIOLATION %s %s: %s", prop, sig, detail)
		r.writePending()
	}
	return false
}

// Tripped reports an earlier violation of this process when re-running cases is
// pointless (VERIF_NOSHRINK=1: tests whose cases take a minute): the caller
// fails the case at once with the same message, so rapid finishes quickly and
// the first failing case stays the reported one.
func (r *Recorder) Tripped() (string, bool) {
	if os.Getenv("VERIF_NOSHRINK") == "" {
		return "", false
	}
	r.mu.Lock()
	defer r.mu.Unlock()
	return r.tripped, r.tripped != ""
}

// writePending writes the replay file and the violation record (replacing an earlier record of this shard).
func (r *Recorder) writePending() {
	out := os.Getenv("VERIF_OUT")
	if out == "" || r.pending == nil {
		return
	}
	v := r.pending
	rd := os.Getenv("VERIF_REPLAY_DIR")
	if rd == "" {
		rd = out
	}
	_ = os.MkdirAll(rd, 0755)
	name := fmt.Sprintf("%s-%s-%s.json", v.Property, r.Test, hashOf(v.Case))
	rp := filepath.Join(rd, name)
	wrapped := map[string]interface{}{"property": v.Property, "test": r.Test, "signature": v.Signature,
		"detail": v.Detail, "case": v.Case}
	cb, _ := json.MarshalIndent(wrapped, "", " ")
	if os.Getenv("VERIF_REPLAY") == "" {
		_ = os.WriteFile(rp, cb, 0644)
		v.Replay = rp
	} else {
		v.Replay = os.Getenv("VERIF_REPLAY")
	}
	l, _ := json.Marshal(v)
	_ = os.WriteFile(filepath.Join(out, fmt.Sprintf("viol-%d-%s.jsonl", shardNo(), r.Test)), append(l, '\n'), 0644)
}

// Flush writes the evidence fragment, known hits and the pending violation.
func (r *Recorder) Flush(t testing.TB) {
	r.mu.Lock()
	defer r.mu.Unlock()
	out := os.Getenv("VERIF_OUT")
	if out == "" {
		return
	}
	sh := shardNo()
	hs := make([]string, 0, len(r.hashes))
	for h := range r.hashes {
		hs = append(hs, h)
	}
	sort.Strings(hs)
	r.extra["excluded_known"] = r.excluded
	frag := map[string]interface{}{
		"test": r.Test, "evaluations": r.evals, "nontrivial_hashes": hs,
		"labels": r.labels, "samples": r.samples, "extra": r.extra,
	}
	b, _ := json.Marshal(frag)
	_ = os.WriteFile(filepath.Join(out, fmt.Sprintf("evid-%d-%s.json", sh, r.Test)), b, 0644)
	if len(r.knownHits) > 0 {
		f, err := os.OpenFile(filepath.Join(out, fmt.Sprintf("known-%d-%s.jsonl", sh, r.Test)), os.O_CREATE|os.O_APPEND|os.O_WRONLY, 0644)
		if err == nil {
			for sig, what := range r.knownHits {
				l, _ := json.Marshal(map[string]string{"signature": sig, "what": what})
				f.Write(append(l, '\n'))
			}
			f.Close()
		}
	}
	if r.pending != nil && (os.Getenv("VERIF_NOSHRINK") == "" || r.tripped == "") {
		r.writePending()
	}
}

// LoadReplay reads the "case" member of a replay file into dst.
func LoadReplay(dst interface{}) (bool, error) {
	p := os.Getenv("VERIF_REPLAY")
	if p == "" {
		return false, nil
	}
	b, err := os.ReadFile(p)
	if err != nil {
		return true, err
	}
	var w struct {
		Case json.RawMessage `json:"case"`
	}
	if err := json.Unmarshal(b, &w); err != nil {
		return true, err
	}
	return true, json.Unmarshal(w.Case, dst)
}

func tier() string {
	if v := os.Getenv("VERIF_TIER"); v != "" {
		return v
	}
	return "quick"
}

// regressFiles lists the committed regression inputs of a test.
func regressFiles(test string) []string {
	dir := os.Getenv("VERIF_REGRESS_DIR")
	if dir == "" {
		return nil
	}
	ents, err := os.ReadDir(dir)
	if err != nil {
		return nil
	}
	var out []string
	for _, e := range ents {
		if e.IsDir() || filepath.Ext(e.Name()) != ".json" {
			continue
		}
		p := filepath.Join(dir, e.Name())
		b, err := os.ReadFile(p)
		if err != nil {
			continue
		}
		var w struct {
			Test string `json:"test"`
		}
		if json.Unmarshal(b, &w) == nil && (w.Test == test || w.Test == "") {
			out = append(out, p)
		}
	}
	sort.Strings(out)
	return out
}

func loadCaseFile(p string, dst interface{}) error {
	b, err := os.ReadFile(p)
	if err != nil {
		return err
	}
	var w struct {
		Case json.RawMessage `json:"case"`
	}
	if err := json.Unmarshal(b, &w); err != nil {
		return err
	}
	return json.Unmarshal(w.Case, dst)
}

func headStr(s string, n int) string {
	if len(s) > n {
		return s[:n]
	}
	return s
}

// checkBudget is rapid.Check with a soft deadline: rapid stops generating cases
// only when less than five average case durations are left before the test
// binary's own time-out, which a single long case (a few 2 s sleeps of the
// product's rpc client are enough) overruns - the binary then dies with "test timed
// out" and the shard counts as broken. Past VERIF_SOFT_DEADLINE_S seconds (set by
// ./check, some 25 s before the time-out) the remaining cases return at once.
func checkBudget(t *testing.T, prop func(*rapid.T)) {
	rapid.Check(t, func(rt *rapid.T) {
		if pastSoftDeadline() {
			return
		}
		prop(rt)
	})
}

var processStart = time.Now()

func pastSoftDeadline() bool {
	s := envInt("VERIF_SOFT_DEADLINE_S", 0)
	return s > 0 && time.Since(processStart) > time.Duration(s)*time.Second
}
