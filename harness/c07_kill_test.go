package harness

import (
	"bytes"
	"encoding/json"
	"fmt"
	"net/http"
	"os"
	"os/exec"
	"path/filepath"
	"strconv"
	"strings"
	"syscall"
	"testing"
	"time"

	"github.com/openebs/jiva/types"
	"pgregory.net/rapid"
)

// Kill tier of C07: the rebuilding replica is the repository's own binary
// (`jiva replica --frontendIP <controller>`), so the whole product flow runs -
// AutoConfigureReplica, checkAndResetFailedRebuild, sync.Task.AddReplica, the
// rebuild through real sync agents, reloadAndVerify - and the process is killed
// (-9) at generated points of that flow and restarted on the same directory, as
// its pod would be. The healthy replicas and the controller run in the harness.

type KillPoint struct {
	Phase   string `json:"phase"` // listed | rebuilding | files | promoted
	DelayMs int    `json:"delay"`
}

type KillCase struct {
	RF        int         `json:"rf"`
	Blocks    int         `json:"blocks"`
	Hist      []SOp       `json:"hist"`  // history on the full volume (writes, volume snapshots)
	Leave     string      `json:"leave"` // how the last node leaves: remove | nodedrop
	Stale     bool        `json:"stale"` // the child starts on a copy of the departed node's directory
	Away      []SOp       `json:"away"`  // writes while the volume runs without it (RF 3 only)
	Kills     []KillPoint `json:"kills"`
	FGEveryMs int         `json:"fgevery"` // a foreground write every so many ms while the child is attached (0 = none)
	Seed      int         `json:"seed"`
}

type replicaChild struct {
	cmd   *exec.Cmd
	agent *exec.Cmd
	errb  *bytes.Buffer
	done  chan struct{}
}

func (rc *replicaChild) exited() bool {
	select {
	case <-rc.done:
		return true
	default:
		return false
	}
}

func (rc *replicaChild) kill() {
	if rc.cmd != nil && rc.cmd.Process != nil {
		syscall.Kill(-rc.cmd.Process.Pid, syscall.SIGKILL)
	}
	if rc.agent != nil && rc.agent.Process != nil {
		syscall.Kill(-rc.agent.Process.Pid, syscall.SIGKILL)
	}
	if rc.cmd != nil {
		select {
		case <-rc.done:
		case <-time.After(5 * time.Second):
		}
	}
}

func startReplicaChild(bin, dir, ip, frontend string, size int64, portLo, portHi int) (*replicaChild, error) {
	rc := &replicaChild{errb: &bytes.Buffer{}, done: make(chan struct{})}
	os.MkdirAll(dir, 0700)
	rc.agent = exec.Command(bin, "sync-agent", "--listen", ip+":9504", "--listen-port-range", fmt.Sprintf("%d-%d", portLo, portHi))
	rc.agent.Dir = dir
	rc.agent.SysProcAttr = &syscall.SysProcAttr{Pdeathsig: syscall.SIGKILL, Setpgid: true}
	if err := rc.agent.Start(); err != nil {
		return nil, err
	}
	go rc.agent.Wait()
	rc.cmd = exec.Command(bin, "replica", "--frontendIP", frontend, "--listen", ip+":9502", "--size", strconv.FormatInt(size, 10),
		"--sync-agent=false", "--logtofile=false", dir)
	rc.cmd.Env = append(os.Environ(), "REPLICATION_FACTOR=3")
	rc.cmd.SysProcAttr = &syscall.SysProcAttr{Pdeathsig: syscall.SIGKILL, Setpgid: true}
	rc.cmd.Stdout = nil
	rc.cmd.Stderr = rc.errb
	if err := rc.cmd.Start(); err != nil {
		rc.kill()
		return nil, err
	}
	go func() { rc.cmd.Wait(); close(rc.done) }()
	return rc, nil
}

type childInfo struct {
	State           string   `json:"state"`
	Rebuilding      bool     `json:"rebuilding"`
	ReplicaMode     string   `json:"replicamode"`
	RevisionCounter string   `json:"revisioncounter"`
	Chain           []string `json:"chain"`
	Head            string   `json:"head"`
}

func getChildInfo(ip string) (childInfo, error) {
	var ci childInfo
	c := http.Client{Timeout: 3 * time.Second}
	resp, err := c.Get("http://" + ip + ":9502/v1/replicas/1")
	if err != nil {
		return ci, err
	}
	defer resp.Body.Close()
	err = json.NewDecoder(resp.Body).Decode(&ci)
	return ci, err
}

func countImgs(dir string) int {
	es, _ := os.ReadDir(dir)
	n := 0
	for _, e := range es {
		if strings.HasSuffix(e.Name(), ".img") {
			n++
		}
	}
	return n
}

func runKillCase(kc KillCase) (*Fail, []string, map[string]int, error) {
	labels := map[string]int{}
	bin := os.Getenv("VERIF_JIVA_BIN")
	if bin == "" {
		return nil, nil, nil, fmt.Errorf("VERIF_JIVA_BIN not set")
	}
	last := kc.RF - 1
	p := SProgram{RF: kc.RF, Nodes: kc.RF, Blocks: kc.Blocks, Init: kc.RF, Pings: true}
	x, err := NewSExec(p)
	if err != nil {
		return nil, nil, nil, err
	}
	defer x.Destroy()
	st := x.St
	if f := x.Init(); f != nil {
		return nil, nil, nil, fmt.Errorf("bring-up: %s", f)
	}
	step := 0
	for _, op := range kc.Hist {
		if op.K == "snapshot" {
			op.Name = fmt.Sprintf("k%d", step)
		}
		if f := x.Step(step, op); f != nil {
			labels["history-crossfinding"]++
			return nil, x.Trace, labels, nil
		}
		step++
	}
	if f := x.Step(step, SOp{K: kc.Leave, Node: last}); f != nil {
		labels["history-crossfinding"]++
		return nil, x.Trace, labels, nil
	}
	step++
	if x.Mode[last] != "" || x.nRW() != kc.RF-1 {
		labels["departure-did-not-happen"]++
		return nil, x.Trace, labels, nil
	}
	if err := st.EnableSystem(); err != nil {
		return nil, nil, nil, err
	}
	tr := func(f string, a ...interface{}) { x.Trace = append(x.Trace, fmt.Sprintf(f, a...)) }
	size := int64(kc.Blocks) * Blk
	childIP := nodeIP(st.slot, 60)
	childDir := filepath.Join(st.Base, "child")
	childAddr := "tcp://" + childIP + ":9502"
	if kc.Stale {
		dn := st.Nodes[last]
		dn.WaitDisconnected(5 * time.Second)
		if dn.S.Replica() != nil {
			dn.fixDrainer()
			dn.S.Close()
		}
		if err := CopyDirExact(dn.Dir, childDir); err != nil {
			return nil, nil, nil, err
		}
		labels["kill:stale-target"]++
	} else {
		labels["kill:fresh-target"]++
	}
	// the departed in-process node plays no further part
	st.Nodes[last].Stop()
	if kc.RF >= 3 {
		for _, op := range kc.Away {
			if f := x.Step(step, op); f != nil {
				labels["history-crossfinding"]++
				return nil, x.Trace, labels, nil
			}
			step++
		}
	}
	// generous data-path deadlines: the child is a separate process on a busy machine
	SetStackTimeouts(4*time.Second, 5*time.Second, sPingEvery)
	defer SetStackTimeouts(sRW, sPing, time.Hour)
	st.Fac.Forward = true

	healthy := []*Node{}
	for j := 0; j < last; j++ {
		healthy = append(healthy, st.Nodes[j])
	}
	src := healthy[0]
	readLogs := func() int {
		n := 0
		for _, h := range healthy {
			n += h.LogLen("read")
		}
		return n
	}
	x0 := time.Now()
	pb := portBase() + 120
	incarnation := 0
	var child *replicaChild
	start := func() error {
		c, err := startReplicaChild(bin, childDir, childIP, st.CtrlIP, size, pb+30*(incarnation%4), pb+30*(incarnation%4)+29)
		if err != nil {
			return err
		}
		child = c
		incarnation++
		tr("t=%v child started (incarnation %d)", time.Since(x0).Round(10*time.Millisecond), incarnation)
		return nil
	}
	if err := start(); err != nil {
		return nil, nil, nil, err
	}
	defer func() {
		if child != nil {
			child.kill()
		}
	}()

	writable := kc.RF/2+1 <= kc.RF-1 // the volume accepts writes without the child
	wseq := 0
	rbuf := make([]byte, size)
	doWrite := func() *Fail {
		if !writable && cloneMode(st, childAddr) != types.RW {
			return nil
		}
		wseq++
		nb := int64(1 + (kc.Seed+wseq)%3)
		blk := int64((kc.Seed*7 + wseq*5) % kc.Blocks)
		if blk+nb > int64(kc.Blocks) {
			nb = int64(kc.Blocks) - blk
		}
		data := payload(9000+wseq, 1+(kc.Seed+wseq)%200, blk*Blk, nb*Blk)
		n, err := st.C.WriteAt(data, blk*Blk)
		if err == nil && n == len(data) {
			x.Live.Write(blk*Blk, data)
			labels["kill:fg-write-acked"]++
		} else {
			// a refused write promises nothing about the range
			x.Live.Unmap(blk*Blk, nb*Blk)
			labels["kill:fg-write-refused"]++
			tr("t=%v foreground write blocks %d+%d refused: n=%d err=%v", time.Since(x0).Round(10*time.Millisecond), blk, nb, n, err)
		}
		return nil
	}
	// doRead: a read through the controller returns the model; while the child is
	// not RW (before and after the read) a healthy replica must have served it
	doRead := func() *Fail {
		m0 := cloneMode(st, childAddr)
		l0 := readLogs()
		blk := int64((kc.Seed*3 + wseq*11 + int(time.Since(x0)/time.Millisecond)) % kc.Blocks)
		nb := min64(int64(kc.Blocks)-blk, 4)
		n, err := st.C.ReadAt(rbuf[:nb*Blk], blk*Blk)
		l1 := readLogs()
		m1 := cloneMode(st, childAddr)
		if err != nil || int64(n) != nb*Blk {
			labels["kill:read-failed"]++
			return nil
		}
		if d := x.Live.Diff(rbuf[:nb*Blk], blk*Blk); d != "" {
			return fail("rebuild|read-differs-from-acknowledged-data", fmt.Sprintf("a read through the controller (child listed %q before, %q after) returned: %s", m0, m1, d), "C07", "C04")
		}
		if m0 != types.RW && m1 != types.RW && l1 == l0 {
			return fail("rebuild|interrupted-replica-served-read", fmt.Sprintf("a read was served although no healthy replica saw it; the child is listed %q", m1), "C07", "C04")
		}
		return nil
	}

	compare := func() *Fail {
		// the child was just seen RW: its image, chain, snapshots and counter equal the source's
		var ci childInfo
		var ierr error
		for k := 0; k < 20; k++ {
			if ci, ierr = getChildInfo(childIP); ierr == nil {
				break
			}
			time.Sleep(100 * time.Millisecond)
		}
		if ierr != nil {
			if cloneMode(st, childAddr) != types.RW {
				return nil // it died in between: the main loop deals with it
			}
			return fail("rebuild|promoted-replica-unreachable", ierr.Error(), "C07")
		}
		sc, err := src.S.Replica().Chain()
		if err != nil {
			return nil
		}
		if len(ci.Chain) == 0 || strings.Join(sc[1:], ",") != strings.Join(ci.Chain[1:], ",") {
			return fail("rebuild|chains-differ", fmt.Sprintf("source chain %v, promoted chain %v", sc, ci.Chain), "C07")
		}
		cs := src.S.Replica().GetRevisionCounter()
		cc, _ := strconv.ParseInt(ci.RevisionCounter, 10, 64)
		if cs != cc {
			return fail("rebuild|counter-mismatch", fmt.Sprintf("promoted child has revision counter %d, source %d", cc, cs), "C07", "C10")
		}
		a, err := ReadDiskImage(src.Dir, sc[0], size)
		if err != nil {
			return fail("rebuild|source-unreadable", err.Error(), "C07")
		}
		b, err := ReadDiskImage(childDir, ci.Chain[0], size)
		if err != nil {
			return fail("rebuild|target-unreadable", err.Error(), "C07")
		}
		if d := x.Live.Diff(b, 0); d != "" {
			return fail("rebuild|promoted-image-differs", fmt.Sprintf("the promoted child does not hold every acknowledged write: %s", d), "C07")
		}
		if !bytes.Equal(a, b) {
			return fail("rebuild|promoted-image-differs-from-source", "the promoted child's live image differs from the source's", "C07")
		}
		sd := src.S.Replica().ListDisks()
		for _, snap := range sc[1:] {
			if !sd[snap].UserCreated {
				continue
			}
			ia, err := ReadDiskImage(src.Dir, snap, size)
			if err != nil {
				return fail("rebuild|snapshot-unreadable", err.Error(), "C07")
			}
			ib, err := ReadDiskImage(childDir, snap, size)
			if err != nil {
				return fail("rebuild|snapshot-unreadable-on-target", err.Error(), "C07")
			}
			if !bytes.Equal(ia, ib) {
				return fail("rebuild|snapshot-differs", fmt.Sprintf("snapshot %s differs between the source and the promoted child", snap), "C07")
			}
			labels["rebuild:snapshot-compared"]++
		}
		labels["kill:promotion-compared"]++
		return nil
	}

	kills := append([]KillPoint{}, kc.Kills...)
	imgs0 := countImgs(childDir)
	var armedAt time.Time
	armed := false
	promotions, killsDone := 0, 0
	lastMode := types.Mode("?")
	lastFG := time.Now()
	var restartAt time.Time
	deadline := time.Now().Add(150 * time.Second)
	wo := 0
	for time.Now().Before(deadline) {
		// membership: never two rebuilding replicas, never more than RF
		nWO := 0
		reps := st.C.ListReplicas()
		for _, r := range reps {
			if r.Mode == types.WO {
				nWO++
			}
		}
		if nWO > 1 {
			return fail("rebuild|two-rebuilding", fmt.Sprintf("%d replicas listed WO", nWO), "C07", "C18"), x.Trace, labels, nil
		}
		if len(reps) > kc.RF {
			return fail("rebuild|more-than-rf", fmt.Sprintf("%d replicas listed", len(reps)), "C07", "C18"), x.Trace, labels, nil
		}
		mode := cloneMode(st, childAddr)
		if mode != lastMode {
			tr("t=%v child listed %q", time.Since(x0).Round(10*time.Millisecond), mode)
			lastMode = mode
			if mode == types.WO {
				wo++
			}
		}
		// the process is gone (killed by us, or it gave up / was dropped and exited as the product does): restart it
		if child.exited() {
			if restartAt.IsZero() {
				labels["kill:child-exit"]++
				restartAt = time.Now().Add(3300 * time.Millisecond) // see DESIGN 7.3: stale monitor goroutine of the previous incarnation
				if tl := tailStr(child.errb.String(), 400); tl != "" {
					tr("child stderr tail: %s", strings.ReplaceAll(tl, "\n", " | "))
				}
			}
			// a dead replica is not listed RW for long: its connection is gone
			if time.Now().After(restartAt) {
				if m := cloneMode(st, childAddr); m != "" {
					if time.Now().After(restartAt.Add(30 * time.Second)) {
						return fail("rebuild|dead-replica-still-listed", fmt.Sprintf("the replica process has been dead for 30 s and is still listed %q", m), "C07", "C05"), x.Trace, labels, nil
					}
				} else {
					if incarnation >= 8 {
						labels["kill:too-many-restarts"]++
						break
					}
					if err := start(); err != nil {
						return nil, nil, nil, err
					}
					restartAt = time.Time{}
					armed = false
					imgs0 = countImgs(childDir)
				}
			}
		} else if len(kills) > 0 {
			k := kills[0]
			if !armed {
				hit := false
				switch k.Phase {
				case "listed":
					hit = mode == types.WO
				case "rebuilding":
					if vm, err := readVolMeta(childDir); err == nil && vm.Rebuilding && mode == types.WO {
						hit = true
					}
				case "files":
					hit = mode == types.WO && countImgs(childDir) > imgs0
				case "promoted":
					hit = mode == types.RW
				}
				if hit {
					armed, armedAt = true, time.Now()
				}
			}
			if armed && time.Since(armedAt) >= time.Duration(k.DelayMs)*time.Millisecond {
				child.kill()
				kills = kills[1:]
				killsDone++
				labels["kill:"+k.Phase]++
				tr("t=%v child killed (%s+%dms), listed %q", time.Since(x0).Round(10*time.Millisecond), k.Phase, k.DelayMs, mode)
				armed = false
				continue
			}
		}
		if mode == types.RW && !child.exited() && (len(kills) == 0 || kills[0].Phase == "promoted") {
			// promoted: compare before anything else is written
			if f := compare(); f != nil {
				return f, x.Trace, labels, nil
			}
			promotions++
			// the volume keeps working with the promoted replica in the read path
			for q := 0; q < 3; q++ {
				if f := doWrite(); f != nil {
					return f, x.Trace, labels, nil
				}
				for r := 0; r < 2*kc.RF; r++ {
					if f := doRead(); f != nil {
						return f, x.Trace, labels, nil
					}
				}
			}
			if len(kills) == 0 {
				break
			}
			// a kill of the promoted replica is due: let the loop do it
			time.Sleep(15 * time.Millisecond)
			continue
		}
		if kc.FGEveryMs > 0 && time.Since(lastFG) >= time.Duration(kc.FGEveryMs)*time.Millisecond && (mode == types.WO || mode == types.RW) {
			lastFG = time.Now()
			if f := doWrite(); f != nil {
				return f, x.Trace, labels, nil
			}
		}
		if f := doRead(); f != nil {
			return f, x.Trace, labels, nil
		}
		time.Sleep(15 * time.Millisecond)
	}
	if promotions == 0 {
		labels["kill:never-promoted-within-deadline"]++
		tr("child stderr tail: %s", strings.ReplaceAll(tailStr(child.errb.String(), 1500), "\n", " | "))
	} else {
		labels["kill:ended-promoted"]++
		if killsDone > 0 {
			labels["kill:promoted-after-kill"]++
		}
	}
	// whatever happened: the healthy replicas still serve the acknowledged data
	for r := 0; r < 4; r++ {
		if f := doRead(); f != nil {
			return f, x.Trace, labels, nil
		}
	}
	return nil, x.Trace, labels, nil
}

func genKillCase(t *rapid.T) KillCase {
	kc := KillCase{RF: rapid.SampledFrom([]int{3, 3, 3, 2}).Draw(t, "rf"), Blocks: rapid.IntRange(8, 24).Draw(t, "blocks"),
		Leave: rapid.SampledFrom([]string{"remove", "nodedrop"}).Draw(t, "leave"), Stale: rapid.IntRange(0, 2).Draw(t, "stale") > 0,
		Seed: rapid.IntRange(1, 5000).Draw(t, "seed")}
	total := int64(kc.Blocks) * 8
	wr := func(l string) SOp {
		off := rapid.Int64Range(0, total-1).Draw(t, l+"off")
		return SOp{K: "write", Off: off, Len: rapid.Int64Range(1, min64(total-off, 40)).Draw(t, l+"len"), Seed: rapid.IntRange(1, 250).Draw(t, l+"seed")}
	}
	if rapid.IntRange(0, 9).Draw(t, "fill") < 6 {
		kc.Hist = append(kc.Hist, SOp{K: "write", Off: 0, Len: total, Seed: rapid.IntRange(1, 250).Draw(t, "fillseed")})
	}
	for k := rapid.IntRange(1, 6).Draw(t, "nhist"); k > 0; k-- {
		if rapid.IntRange(0, 2).Draw(t, "hk") == 0 {
			kc.Hist = append(kc.Hist, SOp{K: "snapshot"})
		} else {
			kc.Hist = append(kc.Hist, wr("h"))
		}
	}
	for k := rapid.IntRange(0, 3).Draw(t, "naway"); k > 0; k-- {
		kc.Away = append(kc.Away, wr("a"))
	}
	nk := rapid.SampledFrom([]int{1, 1, 1, 2, 0}).Draw(t, "nkills")
	for k := 0; k < nk; k++ {
		ph := rapid.SampledFrom([]string{"listed", "rebuilding", "rebuilding", "files", "files", "promoted"}).Draw(t, "phase")
		kc.Kills = append(kc.Kills, KillPoint{Phase: ph, DelayMs: rapid.IntRange(0, 2500).Draw(t, "delay")})
	}
	kc.FGEveryMs = rapid.SampledFrom([]int{0, 40, 150, 400}).Draw(t, "fgevery")
	return kc
}

// TestC07Kill — the rebuilding replica is a real `jiva replica` process that is
// killed during its rebuild and restarted.
func TestC07Kill(t *testing.T) {
	rec := NewRecorder("C07", "TestC07Kill")
	defer rec.Flush(t)
	run := func(kc KillCase, fatalf func(string, ...interface{})) {
		if msg, ok := rec.Tripped(); ok {
			fatalf("%s", msg)
			return
		}
		cb, _ := json.Marshal(kc)
		fmt.Printf("C07KILLCASE %s %s\n", time.Now().Format("15:04:05"), cb)
		f, trace, labels, err := runKillCase(kc)
		fmt.Printf("C07KILLDONE %s %v\n", time.Now().Format("15:04:05"), labels)
		if err != nil {
			fatalf("HARNESS ERROR: %v", err)
			return
		}
		var ls []string
		for k := range labels {
			ls = append(ls, k)
		}
		rec.Case(kc, labels["kill:promoted-after-kill"] > 0, ls...)
		if f != nil {
			detail := f.Detail + "\ntrace:\n  " + strings.Join(tail(trace, 40), "\n  ")
			if f.Has("C07") {
				if rec.Fail("C07", "C07|"+f.Sig, detail, kc) {
					return
				}
				fatalf("VIOLATION C07 %s: %s", f.Sig, detail)
			} else {
				rec.Cross(f.String(), kc)
			}
		}
	}
	var rp KillCase
	if isReplay, err := LoadReplay(&rp); isReplay {
		if err != nil {
			t.Fatalf("HARNESS ERROR: %v", err)
		}
		run(rp, t.Fatalf)
		return
	}
	if firstShard() {
		for _, rf := range regressFiles("TestC07Kill") {
			var c KillCase
			if err := loadCaseFile(rf, &c); err != nil {
				t.Fatalf("HARNESS ERROR: bad regression file %s: %v", rf, err)
			}
			rec.Label("regress-replayed", 1)
			run(c, t.Fatalf)
		}
	}
	checkBudget(t, func(rt *rapid.T) { run(genKillCase(rt), rt.Fatalf) })
}
