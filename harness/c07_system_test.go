package harness

import (
	"fmt"
	"testing"

	"pgregory.net/rapid"
)

// genSysProgram: every program contains at least one rebuild driven by the
// product's own code (sync.Task.AddReplica, real sync agents and ssync
// children). The classes that matter are drawn explicitly: how the target left
// (removed, dropped, never attached), what happened while it was away (nothing,
// writes only = same chain but another revision, snapshots = another chain),
// whether it comes back stale or empty, and the foreground writes alongside
// the transfer.
func genSysProgram(t *rapid.T) SProgram {
	rf := rapid.SampledFrom([]int{3, 3, 2}).Draw(t, "rf")
	nodes := rf
	spare := rapid.IntRange(0, 3).Draw(t, "spare") == 0
	if spare {
		nodes = rf + 1
	}
	blocks := 16
	total := int64(blocks) * 8
	p := SProgram{RF: rf, Nodes: nodes, Blocks: blocks, Init: rf}
	wr := func(label string) SOp {
		off := rapid.Int64Range(0, total-1).Draw(t, label+"off")
		return SOp{K: "write", Off: off, Len: rapid.Int64Range(1, min64(total-off, 24)).Draw(t, label+"len"), Seed: rapid.IntRange(1, 250).Draw(t, label+"seed")}
	}
	if rapid.IntRange(0, 9).Draw(t, "fill") < 7 {
		p.Ops = append(p.Ops, SOp{K: "write", Off: 0, Len: total, Seed: rapid.IntRange(1, 250).Draw(t, "fillseed")})
	}
	for k := rapid.IntRange(0, 3).Draw(t, "prefix"); k > 0; k-- {
		if rapid.IntRange(0, 2).Draw(t, "pk") == 0 {
			p.Ops = append(p.Ops, SOp{K: "snapshot", Name: fmt.Sprintf("v%d", len(p.Ops))})
		} else {
			p.Ops = append(p.Ops, wr("p"))
		}
	}
	if rf == 3 && rapid.IntRange(0, 2).Draw(t, "overlap") == 0 {
		// overlapping absences: c leaves, the volume goes on (c's head goes stale),
		// b leaves and is rebuilt (the healthy replica's head, new data included,
		// becomes a snapshot), then c comes back - mostly with nothing written in
		// between, so that the snapshot taken for c's return is empty on the
		// healthy replica and is c's stale head on c
		if len(p.Ops) == 0 || p.Ops[0].Len != total {
			p.Ops = append([]SOp{{K: "write", Off: 0, Len: total, Seed: rapid.IntRange(1, 250).Draw(t, "fillseed2")}}, p.Ops...)
		}
		perm := rapid.Permutation(seqInts(nodes)).Draw(t, "bc")
		b, c := perm[0], perm[1]
		leave := func(n int) SOp {
			return SOp{K: rapid.SampledFrom([]string{"remove", "nodedrop"}).Draw(t, "leave"), Node: n}
		}
		p.Ops = append(p.Ops, leave(c))
		for k := rapid.IntRange(1, 3).Draw(t, "awaywrites"); k > 0; k-- {
			p.Ops = append(p.Ops, wr("a"))
		}
		p.Ops = append(p.Ops, leave(b))
		quiet := rapid.IntRange(0, 2).Draw(t, "quiet") > 0
		fg := func() int64 {
			if quiet {
				return 0
			}
			return int64(rapid.IntRange(0, 6).Draw(t, "fgwrites"))
		}
		p.Ops = append(p.Ops, SOp{K: "sysrebuild", Node: b, N: fg(), Seed: rapid.IntRange(1, 5000).Draw(t, "seed"), Reps: rapid.IntRange(0, 1).Draw(t, "aligned")})
		if !quiet && rapid.Bool().Draw(t, "between") {
			p.Ops = append(p.Ops, wr("b"))
		}
		p.Ops = append(p.Ops, SOp{K: "sysrebuild", Node: c, N: fg(), Seed: rapid.IntRange(1, 5000).Draw(t, "seed"), Reps: rapid.IntRange(0, 1).Draw(t, "aligned")})
		off := rapid.Int64Range(0, total-1).Draw(t, "roff")
		p.Ops = append(p.Ops, SOp{K: "read", Off: off, Len: rapid.Int64Range(1, min64(total-off, 32)).Draw(t, "rlen"), Reps: 4})
		return p
	}
	rounds := rapid.IntRange(1, 2).Draw(t, "rounds")
	for r := 0; r < rounds; r++ {
		n := rapid.IntRange(0, nodes-1).Draw(t, "target")
		p.Ops = append(p.Ops, SOp{K: rapid.SampledFrom([]string{"remove", "nodedrop"}).Draw(t, "leave"), Node: n})
		// a third of the rebuilds run with receiver ports taken (transfers fail); most
		// of those have the profile in which a transfer error that goes unnoticed
		// matters: the target comes back stale and only writes happened meanwhile,
		// so every file already exists on it under the same name
		portbusy := rapid.IntRange(0, 2).Draw(t, "portbusy") == 0
		away := rapid.IntRange(0, 3).Draw(t, "away")
		if portbusy && rapid.IntRange(0, 3).Draw(t, "pbprofile") > 0 {
			away = 1
		}
		switch away {
		case 0: // nothing happened
		case 1, 2: // writes only: the chains stay equal, the revision counters differ
			for k := rapid.IntRange(1, 3).Draw(t, "awaywrites"); k > 0; k-- {
				p.Ops = append(p.Ops, wr("a"))
			}
		default: // snapshots and writes: the chains differ
			for k := rapid.IntRange(1, 3).Draw(t, "awayops"); k > 0; k-- {
				if rapid.Bool().Draw(t, "awaysnap") {
					p.Ops = append(p.Ops, SOp{K: "snapshot", Name: fmt.Sprintf("v%d", len(p.Ops))})
				} else {
					p.Ops = append(p.Ops, wr("a"))
				}
			}
		}
		if rapid.IntRange(0, 2).Draw(t, "freshtarget") == 0 && !(portbusy && away == 1) {
			p.Ops = append(p.Ops, SOp{K: "reconnect", Node: n, Str: "fresh"})
		}
		sr := SOp{K: "sysrebuild", Node: n, N: int64(rapid.IntRange(0, 12).Draw(t, "fgwrites")), Seed: rapid.IntRange(1, 5000).Draw(t, "seed"),
			Len: int64(rapid.IntRange(0, 400).Draw(t, "gapms")), Reps: rapid.IntRange(0, 1).Draw(t, "aligned")}
		if portbusy {
			sr.Str = "portbusy"
		}
		p.Ops = append(p.Ops, sr)
		for k := rapid.IntRange(0, 2).Draw(t, "suffix"); k > 0; k-- {
			if rapid.Bool().Draw(t, "sk") {
				off := rapid.Int64Range(0, total-1).Draw(t, "roff")
				p.Ops = append(p.Ops, SOp{K: "read", Off: off, Len: rapid.Int64Range(1, min64(total-off, 32)).Draw(t, "rlen"), Reps: rapid.IntRange(1, 4).Draw(t, "reps")})
			} else {
				p.Ops = append(p.Ops, wr("s"))
			}
		}
	}
	return p
}

// TestC07System — the product's own rebuild (sync.Task.AddReplica, real sync
// agents and ssync children) with concurrent foreground writes.
func TestC07System(t *testing.T) {
	runStackProperty(t, "C07", "TestC07System", genSysProgram,
		func(p SProgram, x *SExec) bool { return x.Labels["sysrebuild:promoted"] > 0 })
}
