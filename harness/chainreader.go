package harness

import (
	"encoding/json"
	"fmt"
	"io"
	"os"
	"path/filepath"
	"syscall"
)

// Independent on-disk reader for replica directories. Shares no code with
// the engine: it parses the .meta JSON files itself and uses
// SEEK_DATA/SEEK_HOLE to find which 4 KiB blocks a file holds.

const (
	seekData = 3
	seekHole = 4
)

type diskMeta struct {
	Name            string
	Parent          string
	Removed         bool
	UserCreated     bool
	Created         string
	RevisionCounter int64
}

type volMeta struct {
	Size            int64
	Head            string
	Dirty           bool
	Rebuilding      bool
	Parent          string
	SectorSize      int64
	BackingFileName string
	CloneStatus     string
	Checkpoint      string
	RevisionCounter int64
	UUID            string
}

func readVolMeta(dir string) (volMeta, error) {
	var v volMeta
	b, err := os.ReadFile(filepath.Join(dir, "volume.meta"))
	if err != nil {
		return v, err
	}
	err = json.Unmarshal(b, &v)
	return v, err
}

func readDiskMeta(dir, disk string) (diskMeta, error) {
	var d diskMeta
	b, err := os.ReadFile(filepath.Join(dir, disk+".meta"))
	if err != nil {
		return d, err
	}
	err = json.Unmarshal(b, &d)
	return d, err
}

// diskChain walks parents starting at disk (inclusive); newest first.
func diskChain(dir, disk string) ([]string, error) {
	var out []string
	seen := map[string]bool{}
	cur := disk
	for cur != "" {
		if seen[cur] {
			return nil, fmt.Errorf("cycle at %s", cur)
		}
		seen[cur] = true
		out = append(out, cur)
		m, err := readDiskMeta(dir, cur)
		if err != nil {
			return nil, fmt.Errorf("meta of %s: %v", cur, err)
		}
		cur = m.Parent
		if len(out) > 4096 {
			return nil, fmt.Errorf("chain too long")
		}
	}
	return out, nil
}

// allocatedBlocks returns, for a file, the set of 4 KiB blocks that contain data.
func allocatedBlocks(path string, size int64) ([]bool, error) {
	f, err := os.Open(path)
	if err != nil {
		return nil, err
	}
	defer f.Close()
	st, err := f.Stat()
	if err != nil {
		return nil, err
	}
	flen := st.Size()
	out := make([]bool, (size+Blk-1)/Blk)
	off := int64(0)
	for off < flen {
		d, err := syscall.Seek(int(f.Fd()), off, seekData)
		if err != nil {
			if err == syscall.ENXIO {
				break
			}
			return nil, err
		}
		h, err := syscall.Seek(int(f.Fd()), d, seekHole)
		if err != nil {
			return nil, err
		}
		for b := d / Blk; b*Blk < h && b < int64(len(out)); b++ {
			out[b] = true
		}
		off = h
	}
	return out, nil
}

// ReadDiskImage reconstructs the image a snapshot (or head) represents by
// overlaying, for every block, the newest file in its parent path that has
// the block allocated; zeros otherwise.
func ReadDiskImage(dir, disk string, size int64) ([]byte, error) {
	chain, err := diskChain(dir, disk)
	if err != nil {
		return nil, err
	}
	img := make([]byte, size)
	done := make([]bool, (size+Blk-1)/Blk)
	for _, d := range chain {
		p := filepath.Join(dir, d)
		alloc, err := allocatedBlocks(p, size)
		if err != nil {
			return nil, fmt.Errorf("%s: %v", d, err)
		}
		f, err := os.Open(p)
		if err != nil {
			return nil, err
		}
		for b := range alloc {
			if alloc[b] && !done[b] {
				end := int64(b+1) * Blk
				if end > size {
					end = size
				}
				if _, err := f.ReadAt(img[int64(b)*Blk:end], int64(b)*Blk); err != nil && err != io.EOF {
					f.Close()
					return nil, fmt.Errorf("%s block %d: %v", d, b, err)
				}
				done[b] = true
			}
		}
		f.Close()
	}
	return img, nil
}

// BlockOwners returns, for the path starting at disk, which file owns each block ("" = none).
func BlockOwners(dir, disk string, size int64) ([]string, error) {
	chain, err := diskChain(dir, disk)
	if err != nil {
		return nil, err
	}
	own := make([]string, (size+Blk-1)/Blk)
	for _, d := range chain {
		alloc, err := allocatedBlocks(filepath.Join(dir, d), size)
		if err != nil {
			return nil, err
		}
		for b := range alloc {
			if alloc[b] && own[b] == "" {
				own[b] = d
			}
		}
	}
	return own, nil
}

// CopyDirExact copies a replica directory preserving the exact data/hole
// layout of every file (written zero blocks stay written).
func CopyDirExact(src, dst string) error {
	if err := os.MkdirAll(dst, 0700); err != nil {
		return err
	}
	ents, err := os.ReadDir(src)
	if err != nil {
		return err
	}
	for _, e := range ents {
		if e.IsDir() {
			continue
		}
		if err := CopyFileExact(filepath.Join(src, e.Name()), filepath.Join(dst, e.Name())); err != nil {
			return err
		}
	}
	return nil
}

func CopyFileExact(src, dst string) error {
	in, err := os.Open(src)
	if err != nil {
		return err
	}
	defer in.Close()
	st, err := in.Stat()
	if err != nil {
		return err
	}
	tmp := dst + ".cptmp"
	out, err := os.OpenFile(tmp, os.O_CREATE|os.O_TRUNC|os.O_WRONLY, 0600)
	if err != nil {
		return err
	}
	defer out.Close()
	if err := out.Truncate(st.Size()); err != nil {
		return err
	}
	off := int64(0)
	buf := make([]byte, 1<<20)
	for off < st.Size() {
		d, err := syscall.Seek(int(in.Fd()), off, seekData)
		if err != nil {
			if err == syscall.ENXIO {
				break
			}
			return err
		}
		h, err := syscall.Seek(int(in.Fd()), d, seekHole)
		if err != nil {
			return err
		}
		for p := d; p < h; {
			n := int64(len(buf))
			if p+n > h {
				n = h - p
			}
			if _, err := in.ReadAt(buf[:n], p); err != nil && err != io.EOF {
				return err
			}
			if _, err := out.WriteAt(buf[:n], p); err != nil {
				return err
			}
			p += n
		}
		off = h
	}
	if err := out.Sync(); err != nil {
		return err
	}
	return os.Rename(tmp, dst)
}
