package harness

import (
	"bytes"
	"encoding/json"
	"fmt"
	"net/http"
	"os"
	"os/exec"
	"path/filepath"
	"strconv"
	"strings"
	"syscall"
	"testing"
	"time"

	"github.com/openebs/jiva/types"
	"pgregory.net/rapid"
)

// CloneCase: a source volume history with snapshots, the snapshot to clone and interruptions.
type CloneCase struct {
	RF        int    `json:"rf"` // replicas of the source volume
	Blocks    int    `json:"blocks"`
	Hist      []SOp  `json:"hist"`      // writes and snapshots on the source (snapshot names s0, s1, ...)
	Pick      int    `json:"pick"`      // which snapshot (mod count) is cloned; -1 = a name that does not exist
	Interrupt string `json:"interrupt"` // "" | killclone (kill -9 the clone once during the copy and restart it) | shortchain (the clone process runs with MAX_CHAIN_LENGTH=2: create, open and the file copy work, its reload onto a copied chain of more than one snapshot fails)
	KillAtMs  int    `json:"killat"`
	Grow      int    `json:"grow,omitempty"` // Interrupt "resize": the new volume is grown by this many blocks while the clone is being made
	// NameStyle: how the source's snapshots are called - 0: s0, s1, ...; 1: base, baseimg,
	// baseimgimg, ... (each name is the previous one plus a suffix made of the letters of
	// ".img"); 2: s0.img, s1.img, ...; 3: volume-snap-s0, ...
	NameStyle int `json:"namestyle,omitempty"`
}

type cloneObs struct {
	at     time.Duration
	status string
	mode   types.Mode // mode of the clone in controller B's list ("" = not listed)
}

type cloneChild struct {
	cmd   *exec.Cmd
	agent *exec.Cmd
	errb  *bytes.Buffer
	done  chan struct{}
}

func (cc *cloneChild) exited() bool {
	select {
	case <-cc.done:
		return true
	default:
		return false
	}
}

func startCloneChild(bin, dir, ip, cloneFrom, snap, frontend string, size int64, portLo, portHi int, extraEnv ...string) (*cloneChild, error) {
	cc := &cloneChild{errb: &bytes.Buffer{}, done: make(chan struct{})}
	os.MkdirAll(dir, 0700)
	cc.agent = exec.Command(bin, "sync-agent", "--listen", ip+":9504", "--listen-port-range", fmt.Sprintf("%d-%d", portLo, portHi))
	cc.agent.Dir = dir
	cc.agent.SysProcAttr = &syscall.SysProcAttr{Pdeathsig: syscall.SIGKILL, Setpgid: true}
	if err := cc.agent.Start(); err != nil {
		return nil, err
	}
	go cc.agent.Wait()
	cc.cmd = exec.Command(bin, "replica", "--type", "clone", "--cloneIP", cloneFrom, "--snapName", snap, "--frontendIP", frontend,
		"--listen", ip+":9502", "--size", strconv.FormatInt(size, 10), "--sync-agent=false", "--logtofile=false", dir)
	cc.cmd.Env = append(append(os.Environ(), "REPLICATION_FACTOR=1"), extraEnv...)
	cc.cmd.SysProcAttr = &syscall.SysProcAttr{Pdeathsig: syscall.SIGKILL, Setpgid: true}
	cc.cmd.Stdout = nil
	cc.cmd.Stderr = cc.errb
	if err := cc.cmd.Start(); err != nil {
		cc.stop()
		return nil, err
	}
	go func() { cc.cmd.Wait(); close(cc.done) }()
	return cc, nil
}

func (cc *cloneChild) killReplica() {
	if cc.cmd != nil && cc.cmd.Process != nil {
		syscall.Kill(-cc.cmd.Process.Pid, syscall.SIGKILL)
	}
}

func (cc *cloneChild) stop() {
	cc.killReplica()
	if cc.agent != nil && cc.agent.Process != nil {
		syscall.Kill(-cc.agent.Process.Pid, syscall.SIGKILL)
	}
}

type cloneInfo struct {
	State           string `json:"state"`
	CloneStatus     string `json:"clonestatus"`
	ReplicaMode     string `json:"replicamode"`
	RevisionCounter string `json:"revisioncounter"`
}

func getCloneInfo2(ip string) (childInfo, error) { return getChildInfo(ip) }

func getCloneInfo(ip string) (cloneInfo, error) {
	var ci cloneInfo
	c := http.Client{Timeout: 2 * time.Second}
	resp, err := c.Get("http://" + ip + ":9502/v1/replicas/1")
	if err != nil {
		return ci, err
	}
	defer resp.Body.Close()
	err = json.NewDecoder(resp.Body).Decode(&ci)
	return ci, err
}

// cloneMode reads the clone's mode from controller B without taking its lock
// (Start holds the lock for the whole clone-status polling loop).
func cloneMode(st *Stack, addr string) types.Mode {
	for _, r := range st.C.ListReplicas() {
		if r.Address == addr {
			return r.Mode
		}
	}
	return ""
}

func runCloneCase(cc CloneCase) (*Fail, []string, map[string]int, error) {
	labels := map[string]int{}
	bin := os.Getenv("VERIF_JIVA_BIN")
	if bin == "" {
		return nil, nil, nil, fmt.Errorf("VERIF_JIVA_BIN not set")
	}
	// ---- source volume
	p := SProgram{RF: cc.RF, Nodes: cc.RF, Blocks: cc.Blocks, Init: cc.RF, Ops: cc.Hist}
	x, err := NewSExec(p)
	if err != nil {
		return nil, nil, nil, err
	}
	defer x.Destroy()
	if f := x.Init(); f != nil {
		return nil, nil, nil, fmt.Errorf("source bring-up: %s", f)
	}
	type snapRec struct {
		name string
		img  *Image
	}
	var snaps []snapRec
	for i, op := range cc.Hist {
		if op.K == "snapshot" {
			op.Name = fmt.Sprintf("s%d", len(snaps))
			switch cc.NameStyle {
			case 1:
				op.Name = "base" + strings.Repeat("img", len(snaps))
			case 2:
				op.Name = fmt.Sprintf("s%d.img", len(snaps))
			case 3:
				op.Name = fmt.Sprintf("volume-snap-s%d", len(snaps))
			}
		}
		if f := x.Step(i, op); f != nil {
			labels["source-history-crossfinding"]++
			return nil, x.Trace, labels, nil
		}
		if op.K == "snapshot" {
			snaps = append(snaps, snapRec{op.Name, x.Live.Clone()})
		}
	}
	if len(snaps) == 0 {
		labels["no-snapshot"]++
		return nil, x.Trace, labels, nil
	}
	src := x.St
	if err := src.EnableSystem(); err != nil {
		return nil, nil, nil, err
	}
	snapName := "nosuchsnapshot"
	var want *Image
	wantCounter := int64(-1)
	if cc.Pick >= 0 {
		sr := snaps[cc.Pick%len(snaps)]
		snapName, want = sr.name, sr.img
		for _, d := range src.Nodes[0].S.Replica().ListDisks() {
			if d.Name == snapDisk(snapName) {
				wantCounter = d.RevisionCounter
			}
		}
		labels["clone:of-snapshot-"+map[bool]string{true: "latest", false: "older"}[cc.Pick%len(snaps) == len(snaps)-1]]++
	} else {
		labels["clone:missing-snapshot"]++
	}
	// ---- new volume: controller B (RF=1) with its REST API
	dst, err := NewStack(1, 0, int64(cc.Blocks)*Blk)
	if err != nil {
		return nil, nil, nil, err
	}
	defer dst.Destroy()
	os.Setenv("REPLICATION_FACTOR", "1")
	dst.Fac.Forward = true
	if err := dst.EnableSystem(); err != nil {
		return nil, nil, nil, err
	}
	cloneIP := nodeIP(dst.slot, 50)
	cloneDir := filepath.Join(dst.Base, "clone")
	pb := portBase() + 170
	var childEnv []string
	expectError := cc.Pick < 0
	if cc.Interrupt == "shortchain" {
		// 2 is the smallest limit under which a replica can be created at all; the
		// copied chain (head + S + its ancestors) exceeds it unless S is the oldest snapshot
		childEnv = append(childEnv, "MAX_CHAIN_LENGTH=2")
		if cc.Pick >= 0 {
			// S and its ancestors in the source's chain (replicas added later start with an automatic snapshot below the first user snapshot)
			sch, _ := src.Nodes[0].S.Replica().Chain()
			depth := 0
			for i, d := range sch {
				if d == snapDisk(snapName) {
					depth = len(sch) - i
				}
			}
			if depth+1 > 2 {
				expectError = true
				labels["clone:reload-fails"]++
			} else {
				labels["clone:short-chain-limit-fits"]++
			}
		}
	}
	child, err := startCloneChild(bin, cloneDir, cloneIP, src.CtrlIP, snapName, dst.CtrlIP, int64(cc.Blocks)*Blk, pb, pb+39, childEnv...)
	if err != nil {
		return nil, nil, nil, err
	}
	defer child.stop()
	cloneAddr := "tcp://" + cloneIP + ":9502"
	tr := func(f string, a ...interface{}) { x.Trace = append(x.Trace, fmt.Sprintf(f, a...)) }
	var obs []cloneObs
	t0 := time.Now()
	// probe reads through the new volume run on their own (they block while
	// controller B sits in its start-up polling loop): one that succeeds while the
	// clone's persisted status is not "completed" is a violation
	probeFail := make(chan *Fail, 1)
	stopProbe := make(chan struct{})
	defer close(stopProbe)
	go func() {
		pb := make([]byte, Blk)
		for {
			select {
			case <-stopProbe:
				return
			default:
			}
			if n, err := dst.C.ReadAt(pb, 0); err == nil && n == Blk {
				vm, verr := readVolMeta(cloneDir)
				if verr != nil || vm.CloneStatus != "completed" {
					select {
					case probeFail <- fail("clone|read-served-before-completed", fmt.Sprintf("a read through the new volume succeeded while the clone's status is %q", vm.CloneStatus), "C19"):
					default:
					}
				}
				return
			}
			time.Sleep(20 * time.Millisecond)
		}
	}()
	deadline := t0.Add(60 * time.Second)
	killed := false
	resizeAsked := false
	resizeDone := make(chan error, 1)
	lastStatus, lastMode := "?", types.Mode("?")
	sawCompleted := false
	rwAt := time.Duration(0)
	readBuf := make([]byte, int64(cc.Blocks)*Blk)
	finalErr := false
	for time.Now().Before(deadline) {
		// first the mode in the new volume, then the status: a mode observed RW
		// must be followed by a status observed completed.
		// The clone status is what the replica persisted in volume.meta (that is
		// also what its REST API reports); reading the file never blocks on a lock
		mode := cloneMode(dst, cloneAddr)
		status := "none"
		if vm, err := readVolMeta(cloneDir); err == nil {
			status = vm.CloneStatus
		}
		if status != lastStatus || mode != lastMode {
			obs = append(obs, cloneObs{time.Since(t0), status, mode})
			tr("t=%v clone status=%q mode in new volume=%q", time.Since(t0).Round(10*time.Millisecond), status, mode)
			lastStatus, lastMode = status, mode
		}
		if status == "completed" {
			sawCompleted = true
		}
		// the controller never makes the clone readable or writable before "completed"
		if mode == types.RW && !sawCompleted {
			// re-read once: the status may have changed between the two observations
			if vm, err := readVolMeta(cloneDir); err != nil || vm.CloneStatus != "completed" {
				return fail("clone|rw-before-completed", fmt.Sprintf("the new volume lists the clone RW while its clone status is %q", status), "C19"), x.Trace, labels, nil
			}
			sawCompleted = true
		}
		select {
		case pf := <-probeFail:
			return pf, x.Trace, labels, nil
		default:
		}
		if cc.Interrupt == "killclone" && !killed && time.Since(t0) > time.Duration(cc.KillAtMs)*time.Millisecond && strings.HasSuffix(status, "inProgress") {
			killed = true
			labels["clone:killed-during-copy"]++
			child.killReplica()
			tr("t=%v clone process killed", time.Since(t0).Round(10*time.Millisecond))
			time.Sleep(200 * time.Millisecond)
			// restart the replica process on the same directory
			c2, err := startCloneChild(bin, cloneDir, cloneIP, src.CtrlIP, snapName, dst.CtrlIP, int64(cc.Blocks)*Blk, pb+40, pb+79)
			if err != nil {
				return nil, nil, nil, err
			}
			defer c2.stop()
			// Whether the new volume recovers from this is a liveness question the
			// property does not cover (controller B keeps polling the restarted
			// replica's persisted "inProgress" with its lock held while the replica
			// waits for B's REST API): give it 20 s, then only the safety clauses count.
			deadline = time.Now().Add(20 * time.Second)
		}
		if cc.Interrupt == "resize" && !resizeAsked && time.Since(t0) > time.Duration(cc.KillAtMs)*time.Millisecond && (strings.HasSuffix(status, "inProgress") || mode == types.WO) {
			resizeAsked = true
			labels["clone:resize-requested-during-clone"]++
			newSize := (int64(cc.Blocks) + int64(cc.Grow)) * Blk
			tr("t=%v resize of the new volume to %d requested (clone status %q, listed %q)", time.Since(t0).Round(10*time.Millisecond), newSize, status, mode)
			go func() { resizeDone <- dst.C.Resize("vol", strconv.FormatInt(newSize, 10)) }()
		}
		if mode == types.RW {
			rwAt = time.Since(t0)
			break
		}
		if strings.HasSuffix(status, "error") && (expectError || (cc.Interrupt == "" && child.exited())) {
			// (for an existing snapshot: the clone process gave up and exited, no
			// need to wait for the deadline)
			finalErr = true
			// give the controller time to drop it
			time.Sleep(2500 * time.Millisecond)
			break
		}
		time.Sleep(25 * time.Millisecond)
	}
	// status sequence never goes back
	rank := func(s string) int {
		s = strings.TrimPrefix(s, "closed:")
		switch s {
		case "", "NA", "unreachable", "none":
			return 0
		case "inProgress":
			return 1
		case "completed", "error":
			return 2
		}
		return 0
	}
	maxRank := 0
	for _, o := range obs {
		if o.status == "none" {
			continue
		}
		r := rank(o.status)
		if r < maxRank && !killed {
			return fail("clone|status-went-back", fmt.Sprintf("clone status sequence went back: %v", obs), "C19"), x.Trace, labels, nil
		}
		if r > maxRank {
			maxRank = r
		}
	}
	if expectError {
		labels["clone:error-case"]++
		if !finalErr {
			what := "missing-snapshot"
			if cc.Pick >= 0 {
				what = "reload-fails"
			}
			return fail("clone|"+what+"|no-error-status", fmt.Sprintf("a clone that cannot succeed (%s) did not end in status error within 60 s (listed %q in the new volume): %v", what, cloneMode(dst, cloneAddr), obs), "C19"), x.Trace, labels, nil
		}
		for _, r := range dst.C.ListReplicas() {
			if r.Address == cloneAddr && r.Mode == types.RW {
				return fail("clone|failed-clone-readable", "a failed clone is listed RW in the new volume", "C19"), x.Trace, labels, nil
			}
		}
		if n, err := dst.C.ReadAt(readBuf[:Blk], 0); err == nil && n == Blk {
			return fail("clone|failed-clone-served-read", "a read through the new volume succeeded although the clone failed", "C19"), x.Trace, labels, nil
		}
		return nil, x.Trace, labels, nil
	}
	if rwAt == 0 && killed {
		labels["clone:stuck-after-kill"]++
		return nil, x.Trace, labels, nil
	}
	if rwAt == 0 {
		if finalErr {
			// a failed clone is reported as an error instead of serving partial data
			for _, r := range dst.C.ListReplicas() {
				if r.Address == cloneAddr && r.Mode == types.RW {
					return fail("clone|failed-clone-readable", "a failed clone is listed RW in the new volume", "C19"), x.Trace, labels, nil
				}
			}
			if n, err := dst.C.ReadAt(readBuf[:Blk], 0); err == nil && n == Blk {
				return fail("clone|failed-clone-served-read", "a read through the new volume succeeded although the clone failed", "C19"), x.Trace, labels, nil
			}
		}
		var errLines []string
		for _, l := range strings.Split(child.errb.String(), "\n") {
			if strings.Contains(l, "level=error") || strings.Contains(l, "level=fatal") {
				errLines = append(errLines, headStr(l, 300))
			}
		}
		return fail("clone|never-completed", fmt.Sprintf("the clone was not made RW within 60 s: %v\nchild errors:\n%s\nchild stderr tail: %s", obs, strings.Join(tail(errLines, 12), "\n"), tailStr(child.errb.String(), 1200)), "C19"), x.Trace, labels, nil
	}
	labels["clone:completed"]++
	if resizeAsked {
		// the grow request waits for the clone to be finished (or is refused); then the
		// volume has the new size everywhere or the old one everywhere
		var rerr error
		select {
		case rerr = <-resizeDone:
		case <-time.After(30 * time.Second):
			return fail("clone|resize-hangs", "the resize requested during the clone did not return within 30 s after the clone completed", "C19", "C14"), x.Trace, labels, nil
		}
		tr("resize returned %v", rerr)
		if rerr == nil {
			labels["clone:resized"]++
			newSize := (int64(cc.Blocks) + int64(cc.Grow)) * Blk
			want = want.Clone()
			want.Grow(newSize)
			readBuf = make([]byte, newSize)
			ci, cerr := getCloneInfo2(cloneIP)
			if cerr == nil {
				for _, f := range ci.Chain {
					if fi, err := os.Stat(filepath.Join(cloneDir, f)); err == nil && fi.Size() != newSize {
						return fail("clone|resize-during-clone|chain-file-size", fmt.Sprintf("the new volume was grown to %d while the clone was being made; chain file %s of the clone has size %d", newSize, f, fi.Size()), "C19", "C16"), x.Trace, labels, nil
					}
				}
			}
		}
	}
	// the clone holds exactly the snapshot image
	n, err := dst.C.ReadAt(readBuf, 0)
	if err != nil || n != len(readBuf) {
		return fail("clone|read-failed-after-completed", fmt.Sprintf("read through the new volume: n=%d err=%v", n, err), "C19"), x.Trace, labels, nil
	}
	if d := want.Diff(readBuf, 0); d != "" {
		return fail("clone|image-differs-from-snapshot", fmt.Sprintf("the clone of snapshot %s reads: %s", snapName, d), "C19"), x.Trace, labels, nil
	}
	ci, err := getCloneInfo(cloneIP)
	if err == nil && wantCounter >= 0 {
		got, _ := strconv.ParseInt(ci.RevisionCounter, 10, 64)
		if got != wantCounter {
			return fail("clone|revision-counter", fmt.Sprintf("clone revision counter %d, the source recorded %d for snapshot %s", got, wantCounter, snapName), "C19", "C10"), x.Trace, labels, nil
		}
	}
	if ci.CloneStatus != "completed" {
		return fail("clone|rw-but-status-not-completed", "clone is RW but reports status "+ci.CloneStatus, "C19"), x.Trace, labels, nil
	}
	if cc.Interrupt == "restartafter" {
		// the new volume lives on: writes, a snapshot, more writes - then the clone's
		// process is restarted with the same arguments (its pod is rescheduled). It is a
		// completed clone: it must come back with what the volume holds now, not clone again.
		size := int64(len(readBuf))
		cur := want.Clone()
		wr := func(k int) *Fail {
			blk := int64((cc.KillAtMs + 7*k) % cc.Blocks)
			data := payload(7000+k, 1+(cc.KillAtMs+k)%200, blk*Blk, Blk)
			if n, err := dst.C.WriteAt(data, blk*Blk); err != nil || n != len(data) {
				return fail("clone|write-after-completion-failed", fmt.Sprintf("write through the new volume: n=%d err=%v", n, err), "C19")
			}
			cur.Write(blk*Blk, data)
			return nil
		}
		for k := 0; k < 3; k++ {
			if f := wr(k); f != nil {
				return f, x.Trace, labels, nil
			}
		}
		if _, err := dst.C.Snapshot("afterclone"); err != nil {
			return fail("clone|snapshot-after-completion-failed", err.Error(), "C19", "C13"), x.Trace, labels, nil
		}
		for k := 3; k < 5; k++ {
			if f := wr(k); f != nil {
				return f, x.Trace, labels, nil
			}
		}
		child.killReplica()
		tr("clone process restarted after completion")
		labels["clone:restarted-after-completion"]++
		time.Sleep(3300 * time.Millisecond) // DESIGN 7.3
		c2, err := startCloneChild(bin, cloneDir, cloneIP, src.CtrlIP, snapName, dst.CtrlIP, int64(cc.Blocks)*Blk, pb+40, pb+79)
		if err != nil {
			return nil, nil, nil, err
		}
		defer c2.stop()
		back := false
		for t1 := time.Now(); time.Since(t1) < 60*time.Second; time.Sleep(50 * time.Millisecond) {
			if cloneMode(dst, cloneAddr) == types.RW {
				back = true
				break
			}
		}
		if !back {
			labels["clone:not-back-after-restart"]++
			return nil, x.Trace, labels, nil // liveness: not promised
		}
		n, err := dst.C.ReadAt(readBuf, 0)
		if err != nil || int64(n) != size {
			return fail("clone|restart-after-completion|read-failed", fmt.Sprintf("read through the new volume after the clone's restart: n=%d err=%v", n, err), "C19"), x.Trace, labels, nil
		}
		if d := cur.Diff(readBuf, 0); d != "" {
			return fail("clone|restart-after-completion|acknowledged-data-lost", fmt.Sprintf("the completed clone was restarted; the new volume now reads: %s (chain %v)", d, func() []string { ci, _ := getChildInfo(cloneIP); return ci.Chain }()), "C19", "C10"), x.Trace, labels, nil
		}
		labels["clone:intact-after-restart"]++
	}
	return nil, x.Trace, labels, nil
}

func genCloneCase(t *rapid.T) CloneCase {
	cc := CloneCase{RF: rapid.SampledFrom([]int{1, 1, 2}).Draw(t, "rf"), Blocks: rapid.IntRange(4, 24).Draw(t, "blocks")}
	total := int64(cc.Blocks) * 8
	n := rapid.IntRange(2, 14).Draw(t, "nops")
	nsnap := 0
	for len(cc.Hist) < n {
		if rapid.IntRange(0, 3).Draw(t, "snap") == 0 {
			cc.Hist = append(cc.Hist, SOp{K: "snapshot"})
			nsnap++
			continue
		}
		off := rapid.Int64Range(0, total-1).Draw(t, "off")
		cc.Hist = append(cc.Hist, SOp{K: "write", Off: off, Len: rapid.Int64Range(1, min64(total-off, 40)).Draw(t, "len"), Seed: rapid.IntRange(1, 250).Draw(t, "seed")})
	}
	if nsnap == 0 {
		pos := rapid.IntRange(0, len(cc.Hist)).Draw(t, "snappos")
		h := append([]SOp{}, cc.Hist[:pos]...)
		h = append(h, SOp{K: "snapshot"})
		cc.Hist = append(h, cc.Hist[pos:]...)
	}
	cc.Pick = rapid.IntRange(0, 5).Draw(t, "pick")
	cc.NameStyle = rapid.SampledFrom([]int{0, 0, 0, 1, 1, 2, 3}).Draw(t, "namestyle")
	switch rapid.IntRange(0, 9).Draw(t, "variant") {
	case 0:
		cc.Pick = -1
	case 1, 2:
		cc.Interrupt = "killclone"
		cc.KillAtMs = rapid.IntRange(0, 3000).Draw(t, "killat")
	case 3:
		cc.Interrupt = "shortchain"
	case 6:
		cc.Interrupt = "restartafter"
		cc.KillAtMs = rapid.IntRange(0, 3000).Draw(t, "restartseed")
	case 4, 5:
		cc.Interrupt = "resize"
		cc.KillAtMs = rapid.IntRange(0, 2500).Draw(t, "resizeat")
		cc.Grow = rapid.IntRange(1, 16).Draw(t, "grow")
	}
	return cc
}

// TestC19 — a clone replica holds exactly the source snapshot and serves only when done.
func TestC19(t *testing.T) {
	rec := NewRecorder("C19", "TestC19")
	defer rec.Flush(t)
	run := func(cc CloneCase, fatalf func(string, ...interface{})) {
		if msg, ok := rec.Tripped(); ok {
			fatalf("%s", msg)
			return
		}
		cb, _ := json.Marshal(cc)
		fmt.Printf("C19CASE %s %s\n", time.Now().Format("15:04:05"), cb)
		f, trace, labels, err := runCloneCase(cc)
		// An undisturbed clone that ends in "error" without serving anything has
		// kept the safety clauses; whether it should have completed is decided
		// over three attempts, so that a transfer that timed out on a busy
		// machine is not taken for a defect (a defect fails every attempt).
		for attempt := 2; attempt <= 3 && err == nil && f != nil && f.Sig == "clone|never-completed"; attempt++ {
			fmt.Printf("C19RETRY %d %s\n", attempt, headStr(f.Detail, 300))
			var l2 map[string]int
			f, trace, l2, err = runCloneCase(cc)
			for k, v := range l2 {
				labels[k] += v
			}
			labels["clone:retried-after-uninjected-failure"]++
		}
		fmt.Printf("C19DONE %s\n", time.Now().Format("15:04:05"))
		if err != nil {
			fatalf("HARNESS ERROR: %v", err)
			return
		}
		var ls []string
		for k := range labels {
			ls = append(ls, k)
		}
		rec.Case(cc, labels["clone:completed"]+labels["clone:error-case"] > 0, ls...)
		if f != nil {
			detail := f.Detail + "\ntrace:\n  " + strings.Join(tail(trace, 30), "\n  ")
			if rec.Fail("C19", "C19|"+f.Sig, detail, cc) {
				return
			}
			fatalf("VIOLATION C19 %s: %s", f.Sig, detail)
		}
	}
	var rp CloneCase
	if isReplay, err := LoadReplay(&rp); isReplay {
		if err != nil {
			t.Fatalf("HARNESS ERROR: %v", err)
		}
		run(rp, t.Fatalf)
		return
	}
	if firstShard() {
		for _, rf := range regressFiles("TestC19") {
			var c CloneCase
			if err := loadCaseFile(rf, &c); err != nil {
				t.Fatalf("HARNESS ERROR: bad regression file %s: %v", rf, err)
			}
			rec.Label("regress-replayed", 1)
			run(c, t.Fatalf)
		}
	}
	checkBudget(t, func(rt *rapid.T) { run(genCloneCase(rt), rt.Fatalf) })
}
