package harness

import (
	"strings"
	"testing"

	"pgregory.net/rapid"
)

// runStackProperty is the common driver of the stack-family properties.
func runStackProperty(t *testing.T, prop, test string, gen func(*rapid.T) SProgram,
	nontrivial func(SProgram, *SExec) bool) {
	rec := NewRecorder(prop, test)
	defer rec.Flush(t)

	runOne := func(p SProgram, fatalf func(string, ...interface{})) {
		if msg, ok := rec.Tripped(); ok {
			fatalf("%s", msg)
			return
		}
		x, f, err := RunSProgram(p)
		if x != nil {
			defer x.Destroy()
		}
		if err != nil {
			fatalf("HARNESS ERROR: %v", err)
			return
		}
		labels := []string{}
		for k, v := range x.Labels {
			if v > 0 && !strings.HasPrefix(k, "op:") {
				labels = append(labels, k)
			}
		}
		if x.crossedDown && x.crossedUp {
			labels = append(labels, "quorum-lost-and-regained")
		}
		labels = append(labels, "rf:"+string(rune('0'+p.RF)))
		rec.Case(p, nontrivial(p, x), labels...)
		if f != nil {
			if f.Has(prop) {
				detail := f.Detail + "\ntrace:\n  " + strings.Join(tail(x.Trace, 40), "\n  ")
				if rec.Fail(prop, prop+"|"+f.Sig, detail, p) {
					return
				}
				fatalf("VIOLATION %s %s: %s", prop, f.Sig, detail)
			} else {
				rec.Label("crossfinding:"+strings.Join(f.Props, "+")+":"+f.Sig, 1)
				rec.Cross(f.String()+"\ntrace:\n  "+strings.Join(tail(x.Trace, 40), "\n  "), p)
			}
		}
	}

	var rp SProgram
	if isReplay, err := LoadReplay(&rp); isReplay {
		if err != nil {
			t.Fatalf("HARNESS ERROR: cannot load replay: %v", err)
		}
		runOne(rp, t.Fatalf)
		return
	}
	if firstShard() {
		for _, rf := range regressFiles(test) {
			var c SProgram
			if err := loadCaseFile(rf, &c); err != nil {
				t.Fatalf("HARNESS ERROR: bad regression file %s: %v", rf, err)
			}
			rec.Label("regress-replayed", 1)
			runOne(c, t.Fatalf)
		}
	}
	checkBudget(t, func(rt *rapid.T) {
		runOne(gen(rt), rt.Fatalf)
	})
}
