package harness

import (
	"fmt"
)

const (
	Blk = 4096
	Sec = 512
)

// Image is a volume image: bytes plus a per-sector "indeterminate" mask
// (set by unmap, cleared by a later write).
type Image struct {
	B     []byte
	Indet []bool // per 512-byte sector
}

func NewImage(size int64) *Image {
	return &Image{B: make([]byte, size), Indet: make([]bool, size/Sec)}
}

func (im *Image) Clone() *Image {
	c := &Image{B: make([]byte, len(im.B)), Indet: make([]bool, len(im.Indet))}
	copy(c.B, im.B)
	copy(c.Indet, im.Indet)
	return c
}

func (im *Image) Write(off int64, data []byte) {
	copy(im.B[off:], data)
	for s := off / Sec; s < (off+int64(len(data))+Sec-1)/Sec; s++ {
		im.Indet[s] = false
	}
}

func (im *Image) Unmap(off, length int64) {
	// The engine works in 4 KiB blocks: everything in any touched block is
	// indeterminate afterwards (UNMAP promises nothing about the content).
	b0 := off / Blk * Blk
	b1 := (off + length + Blk - 1) / Blk * Blk
	if b1 > int64(len(im.B)) {
		b1 = int64(len(im.B))
	}
	for s := b0 / Sec; s < b1/Sec; s++ {
		im.Indet[s] = true
	}
}

func (im *Image) Grow(newSize int64) {
	nb := make([]byte, newSize)
	copy(nb, im.B)
	ni := make([]bool, newSize/Sec)
	copy(ni, im.Indet)
	im.B, im.Indet = nb, ni
}

// Diff returns a description of the first mismatch between got and the image
// (outside indeterminate sectors) in [off, off+len(got)), or "".
func (im *Image) Diff(got []byte, off int64) string {
	for i := range got {
		p := off + int64(i)
		if im.Indet[p/Sec] {
			continue
		}
		if got[i] != im.B[p] {
			return fmt.Sprintf("byte %d (block %d, sector %d): got 0x%02x want 0x%02x", p, p/Blk, p/Sec, got[i], im.B[p])
		}
	}
	return ""
}

// Snap is one snapshot of the model's tree.
type Snap struct {
	Disk    string // volume-snap-<name>.img
	Name    string
	Parent  string // disk name of parent, "" for base
	User    bool
	Removed bool
	Img     *Image
	Counter int64 // revision counter recorded when taken
}

// Model is the reference model of one replica.
type Model struct {
	Size    int64
	Live    *Image
	Snaps   map[string]*Snap // by disk name; live-chain snapshots only
	Orphans map[string]bool  // disk names left behind by reverts (files still on disk)
	// OrphanSnaps: orphans whose image is still known: nothing has been merged into
	// any snapshot since they left the live chain (a merge changes a snapshot the
	// orphan may be built on). The product accepts a revert to them.
	OrphanSnaps map[string]*Snap
	// Short: snapshots that came back into the live chain (revert to an orphan)
	// with the size the volume had when they left it - files outside the live
	// chain are not grown with the volume
	Short      map[string]bool
	Chain      []string // live path: head first, base last (disk names)
	HeadNo     int
	Counter    int64
	Mode       string // INIT, RW, WO
	Open       bool
	Punch      bool
	PunchEver  bool
	Checkpoint string
	Rebuilding bool
	MaxChain   int
}

func headName(n int) string       { return fmt.Sprintf("volume-head-%03d.img", n) }
func snapDisk(name string) string { return "volume-snap-" + name + ".img" }

func NewModel(size int64, maxChain int) *Model {
	return &Model{
		Size: size, Live: NewImage(size), Snaps: map[string]*Snap{}, Orphans: map[string]bool{}, OrphanSnaps: map[string]*Snap{}, Short: map[string]bool{},
		Chain: []string{headName(0)}, HeadNo: 0, Counter: 1, Mode: "INIT", MaxChain: maxChain,
	}
}

func (m *Model) Head() string { return m.Chain[0] }

// Latest returns the latest snapshot's disk name ("" if none).
func (m *Model) Latest() string {
	if len(m.Chain) > 1 {
		return m.Chain[1]
	}
	return ""
}

func (m *Model) InChain(disk string) int {
	for i, d := range m.Chain {
		if d == disk {
			return i
		}
	}
	return -1
}

// ChainSnaps returns live-chain snapshots, newest first.
func (m *Model) ChainSnaps() []*Snap {
	var out []*Snap
	for _, d := range m.Chain[1:] {
		out = append(out, m.Snaps[d])
	}
	return out
}

// Retained returns the user-created, not-removed snapshots of the live chain.
func (m *Model) Retained() []*Snap {
	var out []*Snap
	for _, d := range m.Chain[1:] {
		s := m.Snaps[d]
		if s.User && !s.Removed {
			out = append(out, s)
		}
	}
	return out
}

func (m *Model) Write(off int64, data []byte) {
	m.Live.Write(off, data)
}

// Snapshot pushes a snapshot of the live image.
func (m *Model) Snapshot(name string, user bool) {
	disk := snapDisk(name)
	parent := ""
	if len(m.Chain) > 1 {
		parent = m.Chain[1]
	}
	m.Snaps[disk] = &Snap{Disk: disk, Name: name, Parent: parent, User: user, Img: m.Live.Clone(), Counter: m.Counter}
	m.HeadNo++
	nc := []string{headName(m.HeadNo), disk}
	nc = append(nc, m.Chain[1:]...)
	m.Chain = nc
}

// Revert makes the live image equal to snapshot disk's image.
func (m *Model) Revert(disk string) {
	idx := m.InChain(disk)
	s := m.Snaps[disk]
	m.Live = s.Img.Clone()
	for _, d := range m.Chain[1:idx] {
		m.Orphans[d] = true
		if m.OrphanSnaps != nil {
			m.OrphanSnaps[d] = m.Snaps[d]
		}
		delete(m.Snaps, d)
	}
	m.HeadNo++
	nc := []string{headName(m.HeadNo)}
	nc = append(nc, m.Chain[idx:]...)
	m.Chain = nc
}

// OrphanAncestry returns the chain (newest first, without a head) that a revert
// to the orphan builds: the orphan, its orphaned ancestors and the tail of the
// live chain they were branched from.
func (m *Model) OrphanAncestry(disk string) ([]string, bool) {
	var a []string
	for d := disk; d != ""; {
		if s, ok := m.OrphanSnaps[d]; ok {
			a = append(a, d)
			d = s.Parent
			continue
		}
		idx := m.InChain(d)
		if idx < 1 {
			return nil, false
		}
		return append(a, m.Chain[idx:]...), true
	}
	return nil, false
}

// RevertOrphan makes the live image equal to the image of a snapshot that an
// earlier revert cut out of the live chain; the snapshots of the present chain
// that it is not built on become orphans in turn.
func (m *Model) RevertOrphan(disk string) {
	anc, _ := m.OrphanAncestry(disk)
	keep := map[string]bool{}
	for _, d := range anc {
		keep[d] = true
	}
	for _, d := range m.Chain[1:] {
		if !keep[d] {
			m.Orphans[d] = true
			m.OrphanSnaps[d] = m.Snaps[d]
			delete(m.Snaps, d)
		}
	}
	for _, d := range anc {
		if s, ok := m.OrphanSnaps[d]; ok {
			// files outside the live chain are not grown with the volume: what
			// lies beyond their end reads as zeros
			if int64(len(s.Img.B)) < m.Size {
				s.Img = s.Img.Clone()
				s.Img.Grow(m.Size)
				m.Short[d] = true
			}
			m.Snaps[d] = s
			delete(m.OrphanSnaps, d)
			delete(m.Orphans, d)
		}
	}
	m.Live = m.Snaps[disk].Img.Clone()
	m.HeadNo++
	m.Chain = append([]string{headName(m.HeadNo)}, anc...)
}

// Remove merges snapshot disk into its parent and unlinks it.
func (m *Model) Remove(disk string) {
	m.OrphanSnaps = map[string]*Snap{} // (their files stay; what they are built on may have changed)
	idx := m.InChain(disk)
	s := m.Snaps[disk]
	p := m.Snaps[s.Parent]
	p.Img = s.Img
	// child of disk gets re-parented
	child := m.Chain[idx-1]
	if cs, ok := m.Snaps[child]; ok {
		cs.Parent = s.Parent
	}
	delete(m.Snaps, disk)
	m.Chain = append(m.Chain[:idx:idx], m.Chain[idx+1:]...)
}

func (m *Model) Resize(newSize int64) {
	if newSize > m.Size {
		m.Short = map[string]bool{} // every file of the live chain is brought to the new size
	}
	m.Size = newSize
	m.Live.Grow(newSize)
	for _, s := range m.Snaps {
		// snapshot files are extended with zeros as well
		if int64(len(s.Img.B)) < newSize {
			s.Img = s.Img.Clone()
			s.Img.Grow(newSize)
		}
	}
}

// ValidDeleteCandidate is the statement-level predicate of C11 for the
// background cleaner: never head, latest, base, the checkpoint or anything
// newer, a retained user snapshot, or a snapshot whose merge target (parent)
// is a retained user snapshot.
func (m *Model) ValidDeleteCandidate(disk string) (bool, string) {
	idx := m.InChain(disk)
	if idx < 0 {
		return false, "not in chain"
	}
	if idx == 0 {
		return false, "head"
	}
	if idx == 1 {
		return false, "latest snapshot"
	}
	if idx == len(m.Chain)-1 {
		return false, "base snapshot"
	}
	if m.Checkpoint == "" {
		return false, "no checkpoint"
	}
	cp := m.InChain(m.Checkpoint)
	if cp < 0 {
		return false, "checkpoint not in chain"
	}
	if idx <= cp {
		return false, "checkpoint or newer"
	}
	s := m.Snaps[disk]
	if s.User && !s.Removed {
		return false, "user snapshot not marked removed"
	}
	p := m.Snaps[s.Parent]
	if p != nil && p.User && !p.Removed {
		return false, "parent is a retained user snapshot"
	}
	return true, ""
}

// Clone deep-copies the model.
func (m *Model) Clone() *Model {
	c := *m
	c.Live = m.Live.Clone()
	c.Snaps = map[string]*Snap{}
	for k, v := range m.Snaps {
		sv := *v
		sv.Img = v.Img.Clone()
		c.Snaps[k] = &sv
	}
	c.Orphans = map[string]bool{}
	for k, v := range m.Orphans {
		c.Orphans[k] = v
	}
	c.Short = map[string]bool{}
	for k, v := range m.Short {
		c.Short[k] = v
	}
	c.OrphanSnaps = map[string]*Snap{}
	for k, v := range m.OrphanSnaps {
		sv := *v
		sv.Img = v.Img.Clone()
		c.OrphanSnaps[k] = &sv
	}
	c.Chain = append([]string{}, m.Chain...)
	return &c
}
