package harness

import (
	"bytes"
	"encoding/json"
	"fmt"
	"net"
	"net/http"
	"os"
	"path/filepath"
	"sort"
	"strconv"
	"strings"
	"sync"
	"time"

	inject "github.com/openebs/jiva/error-inject"
	"github.com/openebs/jiva/replica"
	"github.com/openebs/jiva/rpc"
	jsync "github.com/openebs/jiva/sync"
	"github.com/openebs/jiva/types"
)

// SOp is one operation of a stack (controller + nodes) program.
type SOp struct {
	K    string    `json:"k"`
	Node int       `json:"node,omitempty"`
	Off  int64     `json:"off,omitempty"` // sectors
	Len  int64     `json:"len,omitempty"` // sectors
	Seed int       `json:"seed,omitempty"`
	Out  []Outcome `json:"out,omitempty"`  // per node outcome of the data-path call
	Fail []int     `json:"fail,omitempty"` // nodes whose REST action fails (management ops)
	Name string    `json:"name,omitempty"`
	N    int64     `json:"n,omitempty"`
	Str  string    `json:"str,omitempty"`
	Reps int       `json:"reps,omitempty"`
	On   bool      `json:"on,omitempty"`
}

type SProgram struct {
	RF     int   `json:"rf"`
	Nodes  int   `json:"nodes"`
	Blocks int   `json:"blocks"`
	Init   int   `json:"init"`             // number of nodes brought up RW before the ops run
	Pings  bool  `json:"pings"`            // monitor pings every 150 ms (otherwise effectively off)
	RegAll bool  `json:"regall,omitempty"` // all initial replicas register before the volume starts
	Ops    []SOp `json:"ops"`
}

type ackedWrite struct {
	Off, Len  int64
	Sum       uint64
	W         []int // nodes attached (non-ERR) when it was issued
	A         []int // nodes that applied it
	ARW       int   // how many of those were RW (not rebuilding) at the time
	Unordered bool  // issued concurrently with others: its position in the node logs is not fixed
}

// SExec runs stack programs against the real controller and nodes and a
// membership + data model.
type SExec struct {
	St     *Stack
	P      SProgram
	Mode   []types.Mode // model: "" absent
	Live   *Image
	Acked  []ackedWrite
	Frozen map[int]int // node -> log length at the time it was detached
	// registrations: evt counts registrations and end-of-step membership scans;
	// regSeq[n] = evt of node n's latest registration, listedSeq[n] = evt of the
	// latest scan that found n in the controller's replica list
	evt int
	// counterTaint: the program changed a replica\'s mode through the operator\'s
	// set-mode API; the revision counts of the RW replicas need not agree any more
	counterTaint bool
	// cpCutByRevert: the checkpoint the controller held when a volume revert last succeeded
	cpCutByRevert          string
	regSeq                 map[int]int
	listedSeq              map[int]int
	AttAck                 map[int]int // node -> len(Acked) when it was (re)attached
	AttLog                 map[int]int // node -> len(node log) when it was (re)attached
	Trace                  []string
	Labels                 map[string]int
	step                   int
	lastOp                 string
	crossedDown, crossedUp bool
	prevRO                 bool
	ROProbes               int
	snaps                  []string
	snapImg                map[string]*Image // image of the volume at each successful sequential volume snapshot
	snapMarked             map[string]string // user snapshot -> "removed" | "maybe" (a delete request was accepted / failed half-way)
	punchEver              bool
	subBlockWO             map[int]map[int64]bool // node -> blocks hit by a sub-block write acknowledged while it was rebuilding (WO)
	wseq                   map[int]int64          // per race writer: last sequence number used
	raceLayout             string                 // number of race writers (fixed for the case)
}

func (x *SExec) tracef(f string, a ...interface{}) {
	x.Trace = append(x.Trace, fmt.Sprintf("#%d ", x.step)+fmt.Sprintf(f, a...))
}

const (
	sRW        = 300 * time.Millisecond
	sPing      = 2 * time.Second
	sPingEvery = 150 * time.Millisecond
)

func NewSExec(p SProgram) (*SExec, error) {
	if p.Pings {
		SetStackTimeouts(sRW, sPing, sPingEvery)
	} else {
		SetStackTimeouts(sRW, sPing, time.Hour)
	}
	st, err := NewStack(p.RF, p.Nodes, int64(p.Blocks)*Blk)
	if err != nil {
		return nil, err
	}
	x := &SExec{St: st, P: p, Mode: make([]types.Mode, p.Nodes), Live: NewImage(int64(p.Blocks) * Blk),
		subBlockWO: map[int]map[int64]bool{}, Frozen: map[int]int{}, regSeq: map[int]int{}, listedSeq: map[int]int{}, AttAck: map[int]int{}, AttLog: map[int]int{}, Labels: map[string]int{}, prevRO: true}
	for _, n := range st.Nodes {
		n.StallFor = sRW + 700*time.Millisecond
		n.SlowFor = sRW * 8 / 5
	}
	return x, nil
}

func (x *SExec) Destroy() { x.St.Destroy() }

func (x *SExec) nRW() int {
	c := 0
	for _, m := range x.Mode {
		if m == types.RW {
			c++
		}
	}
	return c
}

func (x *SExec) listed() int {
	c := 0
	for _, m := range x.Mode {
		if m != "" {
			c++
		}
	}
	return c
}

func (x *SExec) woNode() int {
	for i, m := range x.Mode {
		if m == types.WO {
			return i
		}
	}
	return -1
}

func (x *SExec) readOnly() bool { return x.nRW() < x.P.RF/2+1 }

func (x *SExec) writers() []int {
	var w []int
	for i, m := range x.Mode {
		if m == types.RW || m == types.WO {
			w = append(w, i)
		}
	}
	return w
}

func (x *SExec) detach(i int) {
	if x.Mode[i] != "" {
		x.Mode[i] = ""
		x.Frozen[i] = x.St.Nodes[i].LogLen("write", "read", "sync", "unmap")
	}
}

// scanListed notes which nodes the controller lists right now.
func (x *SExec) scanListed() {
	for _, r := range x.St.C.VerifState().Replicas {
		for j, n := range x.St.Nodes {
			if n.Addr == r.Address {
				x.listedSeq[j] = x.evt
			}
		}
	}
}

// ghostRegs: nodes whose registration the controller still holds although they
// were attached after they registered and have been detached since - detaching
// a replica drops its registration (it has to register again), so such an entry
// counts a replica that is not there.
func (x *SExec) ghostRegs() []int {
	vs := x.St.C.VerifState()
	listed := map[string]bool{}
	for _, r := range vs.Replicas {
		listed[r.Address] = true
	}
	var g []int
	for j, n := range x.St.Nodes {
		if _, ok := vs.Registered[n.IP]; !ok || listed[n.Addr] {
			continue
		}
		if ls, was := x.listedSeq[j]; was && ls > x.regSeq[j] {
			g = append(g, j)
		}
	}
	return g
}

func (x *SExec) noteRO() {
	ro := x.readOnly()
	if ro && !x.prevRO {
		x.crossedDown = true
	}
	if !ro && x.prevRO {
		x.crossedUp = true
	}
	x.prevRO = ro
}

func sfail(sig, detail string, props ...string) *Fail { return fail(sig, detail, props...) }

// Init brings the first p.Init nodes up RW through the real calls.
func (x *SExec) Init() *Fail {
	if x.P.Init == 0 {
		return nil
	}
	x.St.RegAll = x.P.RegAll
	if err := x.St.BringUp(x.P.Init); err != nil {
		return sfail("init|bringup-failed", err.Error(), "C03", "C07", "C18")
	}
	for i := 0; i < x.P.Init; i++ {
		x.Mode[i] = types.RW
	}
	x.evt = 2
	for ip := range x.St.C.VerifState().Registered {
		for j, n := range x.St.Nodes {
			if n.IP == ip {
				x.regSeq[j] = 1
			}
		}
	}
	x.scanListed()
	x.noteRO()
	x.lastOp = "init"
	return x.Verify()
}

func outcomeOf(op SOp, i int) Outcome {
	if i < len(op.Out) && op.Out[i] != "" {
		return op.Out[i]
	}
	return OK
}

// Step applies one op and verifies the quiescent-state invariants.
func (x *SExec) Step(i int, op SOp) *Fail {
	x.step = i
	x.lastOp = op.K
	x.Labels["op:"+op.K]++
	if f := x.apply(i, op); f != nil {
		return f
	}
	x.evt++
	x.scanListed()
	if m := takeFatal(); m != "" {
		return sfail("stack|"+op.K+"|process-exit", m, "C18", "C14")
	}
	if m := takeDPPanic(); m != "" {
		// I/O inside the volume's range, on a replica the controller attached:
		// it must be served (C01/C16) and a rebuilt replica must be its source's equal (C07)
		return sfail("replica|data-path-panic|after="+op.K, m, "C16", "C01", "C07")
	}
	x.noteRO()
	return x.Verify()
}

func (x *SExec) apply(i int, op SOp) *Fail {
	st := x.St
	c := st.C
	switch op.K {
	case "boot":
		n := op.Node % len(st.Nodes)
		if st.Nodes[n].S.Replica() != nil {
			return nil // only a closed replica can register
		}
		before := x.listed()
		ghosts := x.ghostRegs()
		regs := map[int]bool{n: true}
		for ip := range st.C.VerifState().Registered {
			for j, nd := range st.Nodes {
				if nd.IP == ip {
					regs[j] = true
				}
			}
		}
		started, err := st.Boot(n)
		x.evt++
		x.regSeq[n] = x.evt
		x.tracef("boot n%d -> started=n%d err=%v (registered before: %v, of them detached since they registered: %v)", n, started, err, keysOf(regs), ghosts)
		if before > 0 || started < 0 {
			// volume already has replicas, or no majority registered yet: nothing may change
			return nil
		}
		if err != nil {
			if st.Nodes[started].S.Replica() != nil && x.Mode[started] == "" {
				return nil // the signalled replica is not closed (still running detached): it cannot attach
			}
			return sfail("boot|refused", fmt.Sprintf("start of the signalled replica failed: %v", err), "C09")
		}
		for _, g := range ghosts {
			if g != n {
				delete(regs, g)
			}
		}
		if len(regs) < x.P.RF/2+1 {
			// the volume starts although fewer than a majority of the replicas have
			// registered: the controller counted registrations of replicas that it
			// had attached and detached since
			props := []string{"C09"}
			detail := fmt.Sprintf("n%d was asked to start the volume with %d of RF=%d replicas registered (%v); the controller also counted %v, which it had attached and detached after they registered", started, len(regs), x.P.RF, keysOf(regs), ghosts)
			buf := make([]byte, x.Live.size())
			if _, rerr := st.C.ReadAt(buf, 0); rerr == nil {
				if d := x.Live.Diff(buf, 0); d != "" {
					props = append(props, "C04", "C05")
					detail += "; the volume now serves reads that miss acknowledged writes (a replica that was detached is back in service without a rebuild): " + d
				}
			}
			return sfail("boot|started-without-majority", detail, props...)
		}
		n = started
		x.Mode[n] = types.RW
		delete(x.Frozen, n)
		x.AttAck[n] = len(x.Acked)
		x.AttLog[n] = len(st.Nodes[n].LogCopy())
		// the volume restarts from what this replica holds (which replica may
		// start is C09's subject): re-base the data model on it
		buf := make([]byte, x.Live.size())
		if _, rerr := st.Nodes[n].S.ReadAt(buf, 0); rerr == nil {
			x.Live = NewImage(x.Live.size())
			copy(x.Live.B, buf)
		}
		x.Labels["boot:restart"]++
	case "add":
		n := op.Node % len(st.Nodes)
		node := st.Nodes[n]
		if x.Mode[n] == "" && x.P.Pings {
			// a ping of the previous incarnation may still be pending behind a
			// stalled call: its monitor would remove the new incarnation by address
			node.WaitQuiesced()
		}
		closesBefore := node.CloseCount()
		closed := node.S.Replica() == nil
		wo := x.woNode()
		takeover := false
		if wo >= 0 && wo != n {
			a, _ := node.S.GetRevisionCounter()
			b, _ := st.Nodes[wo].S.GetRevisionCounter()
			takeover = a > b
		}
		notListed := x.Mode[n] == ""
		// canAdd: a listed address is refused outright; otherwise a rebuilding
		// replica with a lower revision is removed first (takeover), whatever
		// happens to the newcomer afterwards
		wasTakenOver := notListed && wo >= 0 && takeover
		listedAfter := x.listed()
		if wasTakenOver {
			listedAfter--
		}
		expect := notListed && (wo < 0 || takeover) && listedAfter < x.P.RF && closed
		err := c.AddReplica(node.Addr)
		x.tracef("add n%d (closed=%v wo=%d takeover=%v) -> %v", n, closed, wo, takeover, err)
		if wasTakenOver {
			x.detach(wo)
			x.Labels["takeover"]++
		}
		if node.CloseCount() != closesBefore && x.Mode[n] == "" {
			// the node closed its replica (old connection torn down) while the
			// request was in flight: either answer is legitimate
			if err == nil {
				x.Mode[n] = types.WO
				x.AttAck[n] = len(x.Acked)
				x.AttLog[n] = len(node.LogCopy())
			}
			return nil
		}
		if expect && err != nil {
			return sfail("add|valid|refused", fmt.Sprintf("AddReplica(n%d) refused: %v (modes %v)", n, err, x.Mode), "C03", "C18")
		}
		if !expect && err == nil {
			why := "already listed"
			switch {
			case !notListed:
			case !closed:
				why = "replica not closed"
			case listedAfter >= x.P.RF:
				why = "replication factor reached"
			default:
				why = "another replica is rebuilding"
			}
			return sfail("add|invalid("+why+")|accepted", fmt.Sprintf("AddReplica(n%d) accepted although %s (modes %v)", n, why, x.Mode), "C18", "C07", "C17")
		}
		if err == nil {
			x.Mode[n] = types.WO
			x.AttAck[n] = len(x.Acked)
			x.AttLog[n] = len(node.LogCopy())
			x.Labels["add:ok"]++
			delete(x.subBlockWO, n)
			delete(x.Frozen, n)
		}
	case "promote":
		n := op.Node % len(st.Nodes)
		if x.Mode[n] != types.WO {
			n = x.woNode()
		}
		if n < 0 {
			return nil
		}
		src := x.rebuildSource()
		if src < 0 {
			return nil
		}
		cpFail := 0
		for _, j := range op.Fail {
			j = j % len(st.Nodes)
			if x.Mode[j] == types.RW || j == n {
				st.Nodes[j].FailRest("setcheckpoint", 1)
				cpFail++
			}
		}
		var wf *Fail
		// what every replica has on disk as its checkpoint at the moment the
		// verification returns (the rebuilt one is still flagged rebuilding then)
		persistedCP := map[int]string{}
		notePersisted := func() {
			for j, nd := range st.Nodes {
				if vm, err := readVolMeta(nd.Dir); err == nil {
					persistedCP[j] = vm.Checkpoint
				} else {
					persistedCP[j] = "unreadable volume.meta: " + err.Error()
				}
			}
		}
		st.PromoWindow = notePersisted
		if op.N > 0 && cpFail == 0 {
			// foreground writes between the verification and the end of the rebuild
			st.PromoWindow = func() {
				notePersisted()
				x.Mode[n] = types.RW
				for q := 0; q < int(op.N) && wf == nil; q++ {
					wf = x.fgWrite(i, op.Seed, q+1, op.Reps == 1)
				}
				x.Labels["promote:writes-before-setrebuilding-false"]++
			}
		}
		var raceDone chan *Fail
		if op.Str == "verifyrace" && cpFail == 0 && op.N == 0 && !x.readOnly() {
			// an initiator write arrives while the controller verifies the rebuilt
			// replica (its chain fetch from that replica is held for a moment): the
			// write is served before or after the switch-over as a whole - either way
			// all RW replicas agree on the revision count afterwards
			h := st.Nodes[n].HoldRest("GET /v1/replicas/1", 120*time.Millisecond)
			raceDone = make(chan *Fail, 1)
			go func() {
				select {
				case <-h.Arrived:
					x.Labels["promote:write-during-verification"]++
					raceDone <- x.fgWrite(i, op.Seed, 7, op.Reps == 1)
				case <-time.After(5 * time.Second):
					raceDone <- nil
				}
			}()
		}
		err := st.Promote(src, n)
		if raceDone != nil {
			if f := <-raceDone; f != nil && wf == nil {
				wf = f
			}
		}
		st.PromoWindow = nil
		for _, nd := range st.Nodes {
			nd.ClearFaults()
		}
		x.tracef("promote n%d from n%d cpfail=%v windowwrites=%d -> %v", n, src, op.Fail, op.N, err)
		if wf != nil {
			return wf
		}
		if err != nil && x.checkpointCutOff(src, n) {
			// the replica still carries a checkpoint that a volume revert has cut out
			// of the healthy replica's chain: the controller refuses to verify such a
			// rebuild (DESIGN 7.3) - the replica stays rebuilding
			x.Labels["promote:refused-checkpoint-cut-off-by-revert"]++
			return nil
		}
		if err != nil {
			return sfail("promote|refused", fmt.Sprintf("rebuild of n%d from n%d failed: %v", n, src, err), "C07", "C03")
		}
		x.Mode[n] = types.RW
		x.Labels["promote:ok"]++
		x.inheritSubBlock(src, n)
		if x.nRW() == x.P.RF {
			// all RF replicas are RW and agree on their latest snapshot (the one
			// taken when the replica was added): the checkpoint is recomputed now
			cp := st.C.VerifState().Checkpoint
			if cpFail > 0 {
				x.Labels["promote:setcheckpoint-failed"]++
				if cp != "" {
					return sfail("checkpoint|kept-after-setcheckpoint-failure", fmt.Sprintf("set-checkpoint failed on %d replicas but the controller records checkpoint %s", cpFail, cp), "C13")
				}
			} else {
				for j, nd := range st.Nodes {
					if x.Mode[j] != types.RW || nd.S.Replica() == nil {
						continue
					}
					ch, _ := nd.S.Replica().Chain()
					if len(ch) < 2 || cp != ch[1] {
						return sfail("checkpoint|not-latest-snapshot", fmt.Sprintf("after the promotion all %d replicas are RW; controller checkpoint %q, n%d chain %v", x.P.RF, cp, j, ch), "C13")
					}
					if got, ok := persistedCP[j]; ok && got != cp {
						return sfail("checkpoint|recorded-but-not-persisted", fmt.Sprintf("the controller recorded checkpoint %q when it verified the rebuild of n%d; at that moment n%d had %q in its volume.meta (a replica process that dies now comes back with that)", cp, n, j, got), "C13")
					}
				}
				x.Labels["checkpoint:recomputed"]++
			}
		}
		// C07/C10: counters equal
		a, _ := st.Nodes[src].S.Replica(), 0
		if a != nil && st.Nodes[n].S.Replica() != nil {
			ca, cb := st.Nodes[src].S.Replica().GetRevisionCounter(), st.Nodes[n].S.Replica().GetRevisionCounter()
			if ca != cb {
				return sfail("promote|counter-mismatch", fmt.Sprintf("promoted n%d has revision counter %d, source n%d has %d", n, cb, src, ca), "C07", "C10")
			}
		}
		// C07/C16: the promoted replica has the volume's size (in memory and in volume.meta)
		if rs, rn := st.Nodes[src].S.Replica(), st.Nodes[n].S.Replica(); rs != nil && rn != nil {
			vs, e1 := readVolMeta(st.Nodes[src].Dir)
			vn, e2 := readVolMeta(st.Nodes[n].Dir)
			if rs.Info().Size != rn.Info().Size || (e1 == nil && e2 == nil && vs.Size != vn.Size) {
				return sfail("promote|size-differs", fmt.Sprintf("promoted n%d has size %d (volume.meta %d), source n%d has %d (volume.meta %d)", n, rn.Info().Size, vn.Size, src, rs.Info().Size, vs.Size), "C07", "C16")
			}
		}
	case "write", "sync", "unmap":
		return x.doWrite(i, op)
	case "read":
		return x.doRead(i, op)
	case "remove":
		n := op.Node % len(st.Nodes)
		addr := st.Nodes[n].Addr
		if op.Str != "" {
			addr = op.Str
		}
		err := c.RemoveReplica(addr)
		x.tracef("remove %s -> %v", addr, err)
		if err != nil {
			return sfail("remove|error", err.Error(), "C18")
		}
		if op.Str == "" {
			x.detach(n)
		}
	case "pingfail", "nodedrop":
		n := op.Node % len(st.Nodes)
		if x.Mode[n] == "" || x.Mode[n] == types.ERR {
			return nil
		}
		if op.K == "pingfail" && !x.P.Pings {
			return nil
		}
		if op.K == "pingfail" {
			st.Nodes[n].SetNext("ping", ERR)
		} else {
			st.Nodes[n].DropConn()
		}
		t0 := time.Now()
		gone := false
		for time.Since(t0) < 30*time.Second {
			if st.Mode(n) == "" {
				gone = true
				break
			}
			time.Sleep(20 * time.Millisecond)
		}
		x.tracef("%s n%d -> gone=%v after %v", op.K, n, gone, time.Since(t0))
		if !gone {
			return sfail(op.K+"|not-detached", fmt.Sprintf("n%d still listed 30 s after its %s", n, op.K), "C05", "C15")
		}
		x.detach(n)
		x.Labels[op.K]++
	case "reconnect":
		// the detached node's process dies and comes back: its replica is closed again
		n := op.Node % len(st.Nodes)
		if x.Mode[n] != "" {
			return nil
		}
		st.Nodes[n].ClearFaults()
		st.Nodes[n].DropConn()
		if x.P.Pings {
			st.Nodes[n].WaitQuiesced()
		}
		if st.Nodes[n].S.Replica() != nil {
			st.Nodes[n].fixDrainer()
			st.Nodes[n].S.Close()
		}
		if op.Str == "fresh" {
			// the replica is replaced by a new, empty one on the same address
			hadAgent := st.Nodes[n].agent != nil
			if err := st.Nodes[n].Recreate(x.Live.size()); err != nil {
				panic(err)
			}
			x.Labels["reconnect:fresh-replica"]++
			delete(x.Frozen, n)
			if hadAgent && st.System {
				st.System = false
				if err := st.enableAgents(); err != nil {
					panic(err)
				}
			}
			return nil
		}
		// a restarting replica resets the flag of a failed rebuild before it
		// asks to be added again (sync.checkAndResetFailedRebuild)
		if state, info := st.Nodes[n].S.Status(); state == "closed" && info.Rebuilding {
			nd := st.Nodes[n]
			nd.S.SetPreload(false)
			err := nd.S.Open()
			nd.S.SetPreload(true)
			if err == nil {
				nd.fixDrainer()
				nd.S.SetRebuilding(false)
				nd.S.Close()
			}
		}
	case "snapshot":
		return x.doSnapshot(i, op)
	case "ctlresize":
		return x.doCtlResize(i, op)
	case "race":
		return x.doRace(i, op)
	case "statsrace":
		return x.doStatsRace(i, op)
	case "snaprace":
		return x.doSnapRace(i, op)
	case "iorace":
		return x.doIORace(i, op)
	case "addresize":
		return x.doAddResize(i, op)
	case "addwrite":
		return x.doAddWrite(i, op)
	case "resizerace":
		return x.doResizeRace(i, op)
	case "ctldelsnap":
		return x.doCtlDeleteSnapshot(i, op)
	case "ctlrevert":
		return x.doCtlRevert(i, op)
	case "cleaner":
		return x.doCleaner(i, op)
	case "rebuild":
		return x.doRebuild(i, op)
	case "sysrebuild":
		return x.doSysRebuild(i, op)
	case "setmodeseq":
		// several set-mode requests for one address back to back (no settling in between)
		x.counterTaint = true
		n := op.Node % len(st.Nodes)
		addr := st.Nodes[n].Addr
		for _, mname := range strings.Split(op.Name, ",") {
			mode := types.Mode(mname)
			err := c.SetReplicaMode(addr, mode)
			x.tracef("setmode %s %s -> %v", addr, mode, err)
			if err == nil && x.Mode[n] != "" && x.Mode[n] != types.ERR && (mode == types.ERR || mode == types.RW) {
				x.Mode[n] = mode
				if mode == types.ERR {
					x.Frozen[n] = st.Nodes[n].LogLen("write", "read", "sync", "unmap")
				}
			}
		}
	case "verifyonly":
		// the controller is asked to verify a rebuilding replica that has not been
		// synced: it must refuse when the chains differ (only then is the call made)
		n := x.woNode()
		if n < 0 {
			return nil
		}
		src := x.rebuildSource()
		if src < 0 || st.Nodes[src].S.Replica() == nil || st.Nodes[n].S.Replica() == nil {
			return nil
		}
		sc, e1 := st.Nodes[src].S.Replica().Chain()
		dc, e2 := st.Nodes[n].S.Replica().Chain()
		if e1 != nil || e2 != nil || len(sc) < 2 || len(dc) < 1 || strings.Join(sc[1:], ",") == strings.Join(dc[1:], ",") {
			return nil
		}
		if len(dc) > len(sc) && strings.Join(sc[1:], ",") == strings.Join(dc[1:len(sc)], ",") {
			// the unsynced replica has every snapshot of the source under the same name, and
			// older ones of its own below: the verification compares names from the head down
			// to the source's base (the sync would have replaced the meta files as well) -
			// a name check cannot tell (DESIGN 7.4)
			x.Labels["verifyonly:same-names-extra-older-snapshots"]++
			return nil
		}
		// as in the product's flow the replica is flagged rebuilding first
		if err := st.Nodes[n].S.SetRebuilding(true); err != nil {
			return nil
		}
		err := c.VerifyRebuildReplica(st.Nodes[n].Addr)
		x.tracef("verifyonly n%d (chain %v, source n%d chain %v) -> %v", n, dc, src, sc, err)
		x.Labels["verifyonly:chains-differ"]++
		if err == nil || st.Mode(n) == types.RW {
			return sfail("verify|accepted-different-chain", fmt.Sprintf("n%d was not synced (chain %v, source n%d has %v) but the verification made it %s (err=%v)", n, dc, src, sc, st.Mode(n), err), "C07", "C04")
		}
		// (the replica's process would restart and clear the flag of the failed rebuild)
		st.Nodes[n].S.SetRebuilding(false)
	case "addrace":
		// two add requests in flight at once: both are admitted (or not) while
		// the other one is connecting to its replica; the bookkeeping invariants
		// (no duplicate, at most RF, one rebuilding replica) must hold afterwards
		a, b := op.Node%len(st.Nodes), int(op.N)%len(st.Nodes)
		if a == b {
			// two requests for one address meet inside the same replica process as well
			// (two opens, two data connections of which the node serves one at a time):
			// what the node then does with the loser's connection is timing dependent
			// in this harness (a run was seen to blame the controller for a flush that
			// the node served late); the two candidates are distinct replicas
			b = (a + 1) % len(st.Nodes)
			if b == a {
				return nil
			}
		}
		if x.woNode() >= 0 || x.listed() >= x.P.RF || x.listed() == 0 || x.Mode[a] != "" || x.Mode[b] != "" {
			return nil
		}
		gate := make(chan struct{})
		st.Fac.setGate(gate)
		res := make(chan error, 2)
		base := st.Fac.nCreates()
		waitCreates := func(k int) {
			for t0 := time.Now(); st.Fac.nCreates() < base+k && len(res) == 0 && time.Since(t0) < 2*time.Second; {
				time.Sleep(time.Millisecond)
			}
		}
		go func() { res <- c.AddReplica(st.Nodes[a].Addr) }()
		waitCreates(1)
		go func() { res <- c.AddReplica(st.Nodes[b].Addr) }()
		waitCreates(2)
		inFlight := st.Fac.nCreates() - base
		close(gate)
		st.Fac.setGate(nil)
		var errs []error
		for k := 0; k < 2; k++ {
			select {
			case e := <-res:
				errs = append(errs, e)
			case <-time.After(60 * time.Second):
				return sfail("addrace|hangs", "AddReplica did not return within 60 s", "C18", "C14")
			}
		}
		x.tracef("addrace n%d n%d (in flight together: %d) -> %v", a, b, inFlight, errs)
		if inFlight >= 2 {
			x.Labels["addrace:both-in-flight"]++
		}
		for _, n := range []int{a, b} {
			if m := st.Mode(n); m == types.WO && x.Mode[n] == "" {
				x.Mode[n] = types.WO
				x.AttAck[n] = len(x.Acked)
				x.AttLog[n] = len(st.Nodes[n].LogCopy())
				delete(x.subBlockWO, n)
				delete(x.Frozen, n)
				x.Labels["add:ok"]++
			}
		}
	case "addlate":
		// a slow add is overtaken: the request for a has been admitted and is connecting
		// to its replica (controller lock released) when b is added, rebuilt and promoted;
		// then a's connection completes. The replication factor bounds the membership
		// whatever the order (the invariants are checked by Verify afterwards).
		a, b := op.Node%len(st.Nodes), int(op.N)%len(st.Nodes)
		if a == b {
			b = (a + 1) % len(st.Nodes)
		}
		if a == b || x.woNode() >= 0 || x.listed() >= x.P.RF || x.listed() == 0 || x.Mode[a] != "" || x.Mode[b] != "" ||
			st.Nodes[a].S.Replica() != nil || st.Nodes[b].S.Replica() != nil {
			return nil
		}
		for j, m := range x.Mode {
			if m == types.ERR || (m == "" && st.Mode(j) != "") {
				return nil
			}
		}
		src := x.rebuildSource()
		if src < 0 {
			return nil
		}
		gate := make(chan struct{})
		st.Fac.setGateFor(st.Nodes[a].Addr, gate)
		base := st.Fac.nCreates()
		resA := make(chan error, 1)
		go func() { resA <- c.AddReplica(st.Nodes[a].Addr) }()
		for t0 := time.Now(); st.Fac.nCreates() < base+1 && len(resA) == 0 && time.Since(t0) < 2*time.Second; {
			time.Sleep(time.Millisecond)
		}
		errB := c.AddReplica(st.Nodes[b].Addr)
		var errP error
		if errB == nil {
			x.Mode[b] = types.WO
			x.AttAck[b] = len(x.Acked)
			x.AttLog[b] = len(st.Nodes[b].LogCopy())
			delete(x.subBlockWO, b)
			delete(x.Frozen, b)
			if errP = st.Promote(src, b); errP == nil {
				x.Mode[b] = types.RW
			}
		}
		close(gate)
		st.Fac.setGate(nil)
		var errA error
		select {
		case errA = <-resA:
		case <-time.After(60 * time.Second):
			return sfail("addlate|hangs", "AddReplica did not return within 60 s", "C18", "C14")
		}
		x.tracef("addlate: add n%d parked in its connection; add n%d -> %v, promote -> %v; then n%d's add completes -> %v; listed %v", a, b, errB, errP, a, errA, st.C.VerifState().Replicas)
		x.Labels["addlate"]++
		if m := st.Mode(a); m == types.WO && x.Mode[a] == "" {
			x.Mode[a] = types.WO
			x.AttAck[a] = len(x.Acked)
			x.AttLog[a] = len(st.Nodes[a].LogCopy())
			delete(x.subBlockWO, a)
			delete(x.Frozen, a)
			x.Labels["add:ok"]++
		}
	case "errio":
		// a replica is marked failed and I/O follows at once, before the monitor
		// goroutine has removed it (with pings on, a stalled ping keeps the
		// monitor busy): a replica marked failed receives no further I/O
		n := op.Node % len(st.Nodes)
		if x.Mode[n] != types.RW && x.Mode[n] != types.WO {
			return nil
		}
		if x.P.Pings {
			st.Nodes[n].SetNext("ping", STALL)
			time.Sleep(2*sPingEvery + 50*time.Millisecond)
			x.Labels["errio:ping-in-flight"]++
		}
		err := c.SetReplicaMode(st.Nodes[n].Addr, types.ERR)
		x.tracef("errio: setmode n%d ERR -> %v", n, err)
		if err != nil {
			st.Nodes[n].ClearFaults()
			return sfail("setmode|error", err.Error(), "C18")
		}
		x.Mode[n] = types.ERR
		x.Frozen[n] = st.Nodes[n].LogLen("write", "read", "sync", "unmap")
		x.Labels["errio"]++
		f := x.doWrite(i, SOp{K: "write", Off: op.Off, Len: op.Len, Seed: op.Seed})
		if f == nil {
			f = x.doWrite(i, SOp{K: "sync"})
		}
		st.Nodes[n].ClearFaults()
		return f
	case "setmode":
		x.counterTaint = true
		n := op.Node % len(st.Nodes)
		addr := st.Nodes[n].Addr
		if op.Str != "" {
			addr = op.Str
		}
		mode := types.Mode(op.Name)
		err := c.SetReplicaMode(addr, mode)
		x.tracef("setmode %s %s -> %v", addr, mode, err)
		if mode != types.ERR && mode != types.RW {
			if err == nil {
				return sfail("setmode|mode="+string(mode)+"|accepted", "SetReplicaMode accepted mode "+string(mode), "C18")
			}
			return nil
		}
		if err != nil {
			return sfail("setmode|error", err.Error(), "C18")
		}
		if op.Str == "" && x.Mode[n] != "" && x.Mode[n] != types.ERR {
			x.Mode[n] = mode
			if mode == types.ERR {
				x.Frozen[n] = st.Nodes[n].LogLen("write", "read", "sync", "unmap")
			}
		}
	default:
		panic("unknown stack op " + op.K)
	}
	return nil
}

func (x *SExec) doWrite(i int, op SOp) *Fail {
	st := x.St
	c := st.C
	off, length := op.Off*Sec, op.Len*Sec
	if op.K == "write" && off+length > x.Live.size() {
		return nil
	}
	W := x.writers()
	ro := x.readOnly()
	defer longDeadlineFor(op)()
	modeBefore := append([]types.Mode{}, x.Mode...)
	before := make([]int, len(st.Nodes))
	for j, n := range st.Nodes {
		before[j] = n.LogLen(op.K)
	}
	if !ro {
		for _, j := range W {
			if o := outcomeOf(op, j); o != OK {
				st.Nodes[j].SetNext(op.K, o)
			}
		}
	} else if x.ROProbes >= 2 {
		return nil // refused probes cost a second each
	}
	var (
		n    int
		err  error
		data []byte
	)
	t0 := time.Now()
	if op.K == "write" {
		data = payload(i, op.Seed, off, length)
		if op.Seed < 0 {
			// rewrite what is there (programs whose blocks carry the racing writers' stamps)
			data = append([]byte{}, x.Live.B[off:off+length]...)
		}
	}
	returned := make(chan struct{})
	go func() {
		switch op.K {
		case "write":
			n, err = c.WriteAt(data, off)
		case "sync":
			n, err = c.Sync()
		case "unmap":
			n, err = c.Unmap(off, length)
		}
		close(returned)
	}()
	select {
	case <-returned:
	case <-time.After(40 * time.Second):
		// deadlines are 300 ms, a failed connection costs 2 s: forty seconds is a hang
		for _, nd := range st.Nodes {
			nd.ClearFaults()
		}
		return sfail(op.K+"|hangs", fmt.Sprintf("%s with per-replica outcomes %v did not return within 40 s (r/w deadline %v): the volume is stuck", op.K, op.Out, sRW), "C05", "C15", "C02")
	}
	dur := time.Since(t0)
	ack := err == nil
	if op.K == "write" {
		ack = err == nil && n == len(data)
	}
	for _, nd := range st.Nodes {
		nd.ClearFaults()
	}
	x.tracef("%s off=%d len=%d out=%v W=%v ro=%v -> n=%d err=%v (%v)", op.K, off, length, op.Out, W, ro, n, err, dur.Round(time.Millisecond))
	if ro {
		x.ROProbes++
		x.Labels["probe:readonly"]++
		if ack {
			return sfail(op.K+"|readonly|accepted", fmt.Sprintf("%s acknowledged while only %d of RF=%d replicas are RW (modes %v)", op.K, x.nRW(), x.P.RF, x.Mode), "C03")
		}
		for j, nd := range st.Nodes {
			if nd.LogLen(op.K) != before[j] {
				return sfail(op.K+"|readonly|reached-replica", fmt.Sprintf("%s refused in read-only state but n%d received it", op.K, j), "C03")
			}
		}
		return nil
	}
	// which nodes applied it
	applied := map[int]bool{}
	for _, j := range W {
		lg := st.Nodes[j].LogCopy()
		cnt := 0
		for _, e := range lg {
			if e.Kind == op.K {
				cnt++
				if cnt > before[j] && e.Applied {
					applied[j] = true
				}
				if cnt > before[j] && e.Lied {
					return sfail("replica|"+op.K+"|success-on-failed-disk", fmt.Sprintf("n%d (%s) answered the %s with success although its own disk call failed (chain of %d files): the controller counts it among the replicas that applied it", j, modeBefore[j], op.K, len(st.Nodes[j].S.Replica().VerifFiles())), "C02", "C05")
				}
				if cnt > before[j] && !e.Applied && e.Outcome == OK && e.Err != "" && !strings.Contains(e.Err, "Volume no longer exist") {
					// no fault was injected: the replica itself failed I/O inside the volume's range
					return sfail("replica|"+op.K+"|failed-without-fault", fmt.Sprintf("n%d (%s) failed %s off=%d len=%d by itself: %s", j, modeBefore[j], op.K, off, length, e.Err), "C01", "C16", "C07")
				}
			}
		}
	}
	// a slow replica applies the call after the controller has given up on it: what
	// counts is whether the controller kept it (it does not: its deadline is shorter)
	for _, j := range W {
		if m := st.Mode(j); outcomeOf(op, j) == SLOW && applied[j] && (m == "" || m == types.ERR) {
			delete(applied, j)
		}
	}
	// nodes outside W must not have received it
	for j, nd := range st.Nodes {
		inW := false
		for _, w := range W {
			if w == j {
				inW = true
			}
		}
		if !inW && nd.LogLen(op.K) != before[j] {
			return sfail(op.K+"|sent-to-detached", fmt.Sprintf("%s reached n%d which is %q in the model (modes %v)", op.K, j, x.Mode[j], x.Mode), "C18", "C05")
		}
	}
	majority := len(applied) > len(W)/2
	if ack && !majority {
		props := []string{"C02"}
		rwLeft := 0
		for j := range applied {
			if modeBefore[j] == types.RW {
				rwLeft++
			}
		}
		if rwLeft < x.P.RF/2+1 {
			// the replicas that failed it are gone: the volume had lost its quorum by the time it acknowledged
			props = append(props, "C03")
		}
		return sfail(op.K+"|ack-without-majority", fmt.Sprintf("%s acknowledged but applied by %d of %d attached replicas (W=%v applied=%v; %d RW replicas of RF=%d left)", op.K, len(applied), len(W), W, keys(applied), rwLeft, x.P.RF), props...)
	}
	if !ack && majority {
		return sfail(op.K+"|majority-but-failed", fmt.Sprintf("%s applied by %d of %d attached replicas (W=%v applied=%v) but reported failed: n=%d err=%v", op.K, len(applied), len(W), W, keys(applied), n, err), "C05", "C02")
	}
	nfail := 0
	for _, j := range W {
		if !applied[j] {
			nfail++
			x.detach(j)
		}
	}
	if nfail > 0 {
		x.Labels[op.K+":with-failures"]++
		if ack {
			x.Labels[op.K+":acked-with-failures"]++
		} else {
			x.Labels[op.K+":refused-with-failures"]++
		}
	}
	// failed nodes must be gone when the call returns
	listed := map[string]types.Mode{}
	for _, r := range c.VerifState().Replicas {
		listed[r.Address] = r.Mode
	}
	for _, j := range W {
		if !applied[j] {
			if m, ok := listed[st.Nodes[j].Addr]; ok {
				props := []string{"C02", "C05"}
				if o := outcomeOf(op, j); o == STALL || o == DROP || o == DROPWAIT {
					props = append(props, "C15") // a deadline or connection failure that did not get the replica detached
				}
				detail := fmt.Sprintf("n%d failed the %s (outcome %s) but is still listed as %s when the call returned", j, op.K, outcomeOf(op, j), m)
				upToDate := 0
				for a := range applied {
					if modeBefore[a] == types.RW {
						upToDate++
					}
				}
				if vs := c.VerifState(); m == types.RW && !vs.ReadOnly && upToDate < x.P.RF/2+1 {
					// the replica that missed it still counts as up to date: the volume stays writable below its quorum
					props = append(props, "C03")
					detail += fmt.Sprintf("; the volume stays writable (RWReplicaCount=%d) although only %d of RF=%d replicas are up to date", vs.RWReplicaCount, upToDate, x.P.RF)
				}
				return sfail(op.K+"|failed-replica-still-attached", detail, props...)
			}
		}
	}
	if op.K == "write" {
		if ack {
			x.Live.Write(off, data)
			arw := 0
			for j := range applied {
				if modeBefore[j] == types.RW {
					arw++
				}
			}
			x.Acked = append(x.Acked, ackedWrite{Off: off, Len: length, Sum: sum64(data), W: W, A: keys(applied), ARW: arw})
			x.Labels["write:acked"]++
		} else if len(applied) > 0 {
			for s := off / Sec; s < (off+length)/Sec; s++ {
				x.Live.Indet[s] = true
			}
		}
		// a write that is not block aligned and that a rebuilding (WO) replica applied -
		// acknowledged or not - is completed there by read-modify-write against that
		// replica's own, not yet synced chain (known finding, DESIGN 7.2)
		if off%Blk != 0 || (off+length)%Blk != 0 {
			for j := range applied {
				if modeBefore[j] == types.WO {
					if x.subBlockWO[j] == nil {
						x.subBlockWO[j] = map[int64]bool{}
					}
					// only the partially covered first and last block are affected
					if off%Blk != 0 {
						x.subBlockWO[j][off/Blk] = true
					}
					if (off+length)%Blk != 0 {
						x.subBlockWO[j][(off+length)/Blk] = true
					}
				}
			}
		}
	}
	if op.K == "unmap" && len(applied) > 0 {
		x.Live.Unmap(off, length)
	}
	return nil
}

func keys(m map[int]bool) []int {
	var k []int
	for i := range m {
		k = append(k, i)
	}
	sort.Ints(k)
	return k
}

func (im *Image) size() int64 { return int64(len(im.B)) }

func (x *SExec) doRead(i int, op SOp) *Fail {
	st := x.St
	c := st.C
	off, length := op.Off*Sec, op.Len*Sec
	if off+length > x.Live.size() || length == 0 {
		return nil
	}
	reps := op.Reps
	if reps <= 0 {
		reps = 1
	}
	defer longDeadlineFor(op)()
	for rep := 0; rep < reps; rep++ {
		var rw []int
		for j, m := range x.Mode {
			if m == types.RW {
				rw = append(rw, j)
			}
		}
		F := map[int]bool{}
		if rep == 0 {
			for _, j := range rw {
				if o := outcomeOf(op, j); o != OK {
					st.Nodes[j].SetNext("read", o)
					F[j] = true
				}
			}
		}
		before := make([]int, len(st.Nodes))
		for j, n := range st.Nodes {
			before[j] = n.LogLen("read")
		}
		buf := make([]byte, length)
		n, err := c.ReadAt(buf, off)
		ok := err == nil && int64(n) == length
		for _, nd := range st.Nodes {
			nd.ClearFaults()
		}
		x.tracef("read off=%d len=%d F=%v rw=%v -> n=%d err=%v", off, length, keys(F), rw, n, err)
		healthy := 0
		for _, j := range rw {
			if !F[j] {
				healthy++
			}
		}
		// who served / who was tried
		served := -1
		for j, nd := range st.Nodes {
			lg := nd.LogCopy()
			cnt := 0
			for _, e := range lg {
				if e.Kind != "read" {
					continue
				}
				cnt++
				if cnt <= before[j] {
					continue
				}
				if x.Mode[j] != types.RW {
					return sfail("read|sent-to-non-RW", fmt.Sprintf("a read reached n%d which is %q in the model (modes %v)", j, x.Mode[j], x.Mode), "C04", "C18")
				}
				if !e.Applied && e.Outcome == OK && e.Err != "" && !strings.Contains(e.Err, "Volume no longer exist") {
					return sfail("replica|read|failed-without-fault", fmt.Sprintf("n%d (RW) failed read off=%d len=%d by itself: %s", j, off, length, e.Err), "C01", "C16", "C07")
				}
				if m := st.Mode(j); e.Applied && !(outcomeOf(op, j) == SLOW && rep == 0 && (m == "" || m == types.ERR)) {
					served = j
				} else {
					// (a slow replica answers after the controller has given up on it)
					x.detach(j)
					x.Labels["read:failover"]++
				}
			}
		}
		if healthy == 0 {
			if ok {
				return sfail("read|no-RW|succeeded", fmt.Sprintf("read succeeded with no healthy RW replica (modes %v, failing %v)", x.Mode, keys(F)), "C04")
			}
			x.Labels["read:refused"]++
			// every RW that was tried is detached (done above)
			continue
		}
		if !ok {
			return sfail("read|healthy-RW|failed", fmt.Sprintf("read failed (n=%d err=%v) although n%v are RW and healthy (failing: %v)", n, err, rw, keys(F)), "C04", "C05")
		}
		if served < 0 {
			return sfail("read|served-by-nobody", "read succeeded but no node log shows it", "C04")
		}
		if d := x.Live.Diff(buf, off); d != "" {
			if x.subBlockHit(served, buf, off) {
				return sfail("rebuild|sub-block-write-while-rebuilding|promoted-image-differs", fmt.Sprintf("a write that is not 4 KiB aligned was acknowledged while n%d was rebuilding; a read served by it returned: %s", served, d), "C07")
			}
			return sfail("read|stale-or-wrong-data", fmt.Sprintf("read served by n%d (model mode %s): %s", served, x.Mode[served], d), "C04", "C02")
		}
		if x.woNode() >= 0 {
			x.Labels["read:with-WO-attached"]++
		}
		// tried-and-failed nodes must be gone
		for j := range F {
			if x.Mode[j] == "" && st.Mode(j) != "" {
				return sfail("read|failed-replica-still-attached", fmt.Sprintf("n%d failed a read but is still listed as %s", j, st.Mode(j)), "C04", "C05")
			}
		}
	}
	return nil
}

func (x *SExec) doSnapshot(i int, op SOp) *Fail {
	st := x.St
	c := st.C
	name := op.Name
	if name == "" {
		name = "vs" + strconv.Itoa(i)
	}
	allRW := x.nRW() == x.P.RF
	dup := false
	for _, s := range x.snaps {
		if s == name {
			dup = true
		}
	}
	F := map[int]bool{}
	if allRW && !dup {
		for _, j := range op.Fail {
			j = j % len(st.Nodes)
			if x.Mode[j] == types.RW {
				st.Nodes[j].FailRest("snapshot", 1)
				F[j] = true
			}
		}
	}
	if op.Str == "inflight" && x.P.Pings && len(F) > 0 {
		// a monitor ping is in flight (stalled) on the replicas that are about
		// to fail: their removal by the monitor goroutine is then delayed, so
		// the state right after the call is observable for about a second
		for j := range F {
			st.Nodes[j].SetNext("ping", STALL)
		}
		time.Sleep(2*sPingEvery + 50*time.Millisecond)
		x.Labels["snapshot:failure-with-ping-in-flight"]++
	}
	_, err := c.Snapshot(name)
	for _, nd := range st.Nodes {
		nd.ClearFaults()
	}
	x.tracef("snapshot %s allRW=%v dup=%v F=%v %s -> %v", name, allRW, dup, keys(F), op.Str, err)
	if !allRW {
		if err == nil {
			return sfail("snapshot|not-all-RW|accepted", fmt.Sprintf("volume snapshot accepted with modes %v, RF=%d", x.Mode, x.P.RF), "C13")
		}
		return nil
	}
	if dup {
		if err == nil {
			return sfail("snapshot|name=duplicate|accepted", "volume snapshot with existing name "+name+" accepted", "C13", "C12")
		}
		return nil
	}
	if len(F) == len(x.writers()) {
		if err == nil {
			return sfail("snapshot|all-failed|accepted", "volume snapshot reported success although every replica failed it", "C13")
		}
	} else if err != nil {
		return sfail("snapshot|valid|refused", fmt.Sprintf("volume snapshot refused: %v", err), "C13")
	}
	for j := range F {
		// a replica that failed the snapshot is marked failed (it may stay listed as ERR)
		x.Mode[j] = types.ERR
		x.Frozen[j] = st.Nodes[j].LogLen("write", "read", "sync", "unmap")
	}
	if err == nil {
		x.snaps = append(x.snaps, name)
		if x.snapImg == nil {
			x.snapImg = map[string]*Image{}
		}
		x.snapImg[name] = x.Live.Clone()
		x.Labels["snapshot:ok"]++
		if len(F) > 0 {
			x.Labels["snapshot:partial-failure"]++
		}
	}
	return nil
}

// Verify checks the quiescent-point invariants: C18 bookkeeping agreement,
// C03 read-only status, C13 checkpoint, frozen logs of detached nodes (C05).
func (x *SExec) Verify() *Fail {
	// phase 1: the bookkeeping must agree with itself at every quiescent
	// point, i.e. immediately when the operation has returned
	if f := x.verifyState(false); f != nil {
		return f
	}
	// phase 2: once replicas marked ERR have been removed by the monitor,
	// the membership must be the one the model predicts
	if f := x.settleERR(); f != nil {
		return f
	}
	if f := x.verifyState(true); f != nil {
		return f
	}
	return x.verifySnapImages()
}

// verifySnapImages: every volume snapshot that was taken while the model knew the
// volume's content is, on every RW replica that has it in its chain, exactly the
// image of that moment (read from the files by the independent chain reader) - the
// same content on every replica, and unchanged by whatever happened since.
func (x *SExec) verifySnapImages() *Fail {
	if len(x.snapImg) == 0 || len(x.snapImg) > 8 {
		return nil
	}
	st := x.St
	for j, nd := range st.Nodes {
		if x.Mode[j] != types.RW || st.Mode(j) != types.RW {
			continue
		}
		if len(x.subBlockWO[j]) > 0 {
			// this replica took a write that is not block aligned while it was rebuilding:
			// its image is off since its promotion (the known finding of C07, DESIGN 7.2)
			x.Labels["snapimage:skipped-sub-block-write-while-rebuilding"]++
			continue
		}
		rp := func() (r *replica.Replica) {
			defer func() { recover() }()
			return nd.S.Replica()
		}()
		if rp == nil {
			continue
		}
		ch, err := rp.Chain()
		if err != nil {
			continue
		}
		for name, want := range x.snapImg {
			if x.snapMarked[name] != "" {
				continue
			}
			disk, in := snapDisk(name), false
			for _, d := range ch[1:] {
				in = in || d == disk
			}
			if !in || int64(len(want.B)) != rp.Info().Size {
				continue
			}
			img, err := ReadDiskImage(nd.Dir, disk, int64(len(want.B)))
			if err != nil {
				return sfail("snapshot|unreadable|after="+x.lastOp, fmt.Sprintf("volume snapshot %s on n%d: %v", name, j, err), "C13", "C06")
			}
			if d := want.Diff(img, 0); d != "" {
				return sfail("snapshot|content-differs-from-the-moment-it-was-taken|after="+x.lastOp, fmt.Sprintf("volume snapshot %s on n%d (RW) after %s: %s", name, j, x.lastOp, d), "C13", "C06")
			}
			x.Labels["snapimage:checked"]++
		}
	}
	return nil
}

func (x *SExec) verifyState(withModel bool) *Fail {
	st := x.St
	vs := st.C.VerifState()
	after := x.lastOp
	// --- listed modes vs model
	listed := map[string]types.Mode{}
	for _, r := range vs.Replicas {
		if _, dup := listed[r.Address]; dup {
			return sfail("bookkeeping|duplicate-address", fmt.Sprintf("address %s listed twice: %v", r.Address, vs.Replicas), "C18")
		}
		listed[r.Address] = r.Mode
	}
	if len(vs.Replicas) > x.P.RF {
		return sfail("bookkeeping|more-than-RF", fmt.Sprintf("%d replicas listed, RF=%d", len(vs.Replicas), x.P.RF), "C18")
	}
	nWO, nRW := 0, 0
	for _, r := range vs.Replicas {
		if r.Mode == types.WO {
			nWO++
		}
		if r.Mode == types.RW {
			nRW++
		}
	}
	if nWO > 1 {
		return sfail("bookkeeping|two-WO", fmt.Sprintf("two rebuilding replicas listed: %v", vs.Replicas), "C18", "C07")
	}
	for j, nd := range st.Nodes {
		if !withModel {
			break
		}
		got, ok := listed[nd.Addr]
		want := x.Mode[j]
		if want == types.ERR {
			// a failed replica may be listed as ERR or already removed
			if ok && got != types.ERR {
				return sfail("membership|failed-replica-in-service|after="+after, fmt.Sprintf("n%d failed but is listed as %s", j, got), "C05", "C18")
			}
			continue
		}
		if !ok && want != "" {
			return sfail("membership|missing|after="+after, fmt.Sprintf("n%d should be %s but is not listed (listed: %v)", j, want, vs.Replicas), "C03", "C18")
		}
		if ok && want == "" {
			return sfail("membership|detached-replica-listed|after="+after, fmt.Sprintf("n%d should be detached but is listed as %s", j, got), "C05", "C18")
		}
		if ok && got != want {
			return sfail("membership|mode-mismatch|after="+after, fmt.Sprintf("n%d listed as %s, expected %s", j, got, want), "C03", "C18", "C07")
		}
	}
	// --- backends agree with the list
	if len(vs.Backends) != len(vs.Replicas) {
		return sfail("bookkeeping|backends-vs-list|after="+after, fmt.Sprintf("backends %v, list %v", vs.Backends, vs.Replicas), "C18")
	}
	for a, m := range vs.Backends {
		if lm, ok := listed[a]; !ok || lm != m {
			return sfail("bookkeeping|backend-mode|after="+after, fmt.Sprintf("backend %s mode %s, list says %q", a, m, lm), "C18")
		}
	}
	wantW, wantR := map[string]bool{}, map[string]bool{}
	for a, m := range vs.Backends {
		if m != types.ERR {
			wantW[a] = true
		}
		if m == types.RW {
			wantR[a] = true
		}
	}
	gotW, gotR := map[string]bool{}, map[string]bool{}
	for _, a := range vs.WriterIndex {
		if gotW[a] {
			return sfail("bookkeeping|writer-index-not-injective", fmt.Sprintf("%v", vs.WriterIndex), "C18")
		}
		gotW[a] = true
	}
	for _, a := range vs.ReaderIndex {
		if gotR[a] {
			return sfail("bookkeeping|reader-index-not-injective", fmt.Sprintf("%v", vs.ReaderIndex), "C18")
		}
		gotR[a] = true
	}
	if len(vs.Backends) > 0 || vs.Writers > 0 {
		if !sameSet(gotW, wantW) || vs.Writers != len(wantW) {
			return sfail("bookkeeping|writers|after="+after, fmt.Sprintf("writers %v (%d), expected non-ERR backends %v", vs.WriterIndex, vs.Writers, vs.Backends), "C18")
		}
		if !sameSet(gotR, wantR) || vs.Readers != len(wantR) {
			return sfail("bookkeeping|readers|after="+after, fmt.Sprintf("readers %v (%d), expected RW backends %v", vs.ReaderIndex, vs.Readers, vs.Backends), "C18", "C04")
		}
	}
	if vs.RWReplicaCount != nRW {
		return sfail("bookkeeping|rw-count|after="+after, fmt.Sprintf("RWReplicaCount=%d but %d RW entries: %v", vs.RWReplicaCount, nRW, vs.Replicas), "C18", "C03")
	}
	// --- C03
	wantRO := nRW < x.P.RF/2+1
	if vs.ReadOnly != wantRO {
		return sfail("readonly|stale|after="+after, fmt.Sprintf("ReadOnly=%v with %d RW of RF=%d (%v)", vs.ReadOnly, nRW, x.P.RF, vs.Replicas), "C03")
	}
	// --- C10: all RW replicas report the same revision count (a count that ran ahead
	// or fell behind shows here; a forced mode change by the operator voids it)
	if withModel && !x.counterTaint {
		ref, refN := int64(-1), -1
		for j, nd := range st.Nodes {
			if x.Mode[j] != types.RW || listed[nd.Addr] != types.RW {
				continue
			}
			rp := func() (r *replica.Replica) {
				defer func() { recover() }()
				return nd.S.Replica()
			}()
			if rp == nil {
				continue
			}
			cnt := rp.GetRevisionCounter()
			if ref < 0 {
				ref, refN = cnt, j
			} else if cnt != ref {
				return sfail("counter|rw-replicas-disagree|after="+after, fmt.Sprintf("n%d (RW) reports revision count %d, n%d (RW) reports %d", refN, ref, j, cnt), "C10")
			}
		}
	}
	// --- C13 checkpoint
	if vs.Checkpoint != "" {
		if nRW != x.P.RF {
			return sfail("checkpoint|not-withdrawn|after="+after, fmt.Sprintf("checkpoint %s held with %d RW of RF=%d", vs.Checkpoint, nRW, x.P.RF), "C13")
		}
		for j, nd := range st.Nodes {
			if x.Mode[j] != types.RW {
				continue
			}
			vm, err := readVolMeta(nd.Dir)
			if err != nil {
				return sfail("checkpoint|volume-meta-unreadable", err.Error(), "C13", "C08")
			}
			if vm.Checkpoint != vs.Checkpoint {
				return sfail("checkpoint|replica-disagrees|after="+after, fmt.Sprintf("controller checkpoint %s, n%d persisted %q", vs.Checkpoint, j, vm.Checkpoint), "C13")
			}
			if r := nd.S.Replica(); r != nil {
				ch, _ := r.Chain()
				found := false
				for _, d := range ch {
					if d == vs.Checkpoint {
						found = true
					}
				}
				if !found && x.cpCutByRevert == vs.Checkpoint {
					// a volume revert went below the checkpoint: the controller and the
					// replicas keep naming it until the next one is recorded (DESIGN 7.3)
					x.Labels["checkpoint:cut-out-by-revert"]++
				} else if !found {
					return sfail("checkpoint|not-in-chain", fmt.Sprintf("checkpoint %s not in n%d chain %v", vs.Checkpoint, j, ch), "C13")
				}
			}
		}
	}
	// --- detached nodes receive nothing
	for j, frozen := range x.Frozen {
		if x.Mode[j] == "" || x.Mode[j] == types.ERR {
			if l := st.Nodes[j].LogLen("write", "read", "sync", "unmap"); l != frozen {
				return sfail("detached-replica-received-io|after="+after, fmt.Sprintf("n%d was detached with %d data-path calls logged, now %d", j, frozen, l), "C05", "C18")
			}
		}
	}
	return nil
}

// settleERR waits for replicas the controller marked ERR to be removed by its
// monitor goroutine (marking ERR stops the monitoring, which removes the
// replica asynchronously but promptly); the model then treats them as absent.
func (x *SExec) settleERR() *Fail {
	for j, m := range x.Mode {
		if m != types.ERR {
			continue
		}
		t0 := time.Now()
		gone := false
		// nominal: milliseconds (the monitor goroutine only needs the controller
		// lock); with a ping stalled in front of it about a second
		for time.Since(t0) < 20*time.Second {
			if x.St.Mode(j) == "" {
				x.Mode[j] = ""
				x.Labels["err-replica-removed-by-monitor"]++
				gone = true
				break
			}
			time.Sleep(5 * time.Millisecond)
		}
		if !gone {
			return sfail("membership|failed-replica-never-detached|after="+x.lastOp, fmt.Sprintf("n%d was marked failed but is still listed as %q 20 s later (it can neither serve nor be added again)", j, x.St.Mode(j)), "C05", "C18")
		}
	}
	return nil
}

// subBlockHit reports whether the first differing byte lies in a block that
// received a sub-block write while node j was rebuilding (the known finding).
func (x *SExec) subBlockHit(j int, got []byte, off int64) bool {
	m := x.subBlockWO[j]
	if len(m) == 0 {
		return false
	}
	for i := range got {
		p := off + int64(i)
		if x.Live.Indet[p/Sec] || got[i] == x.Live.B[p] {
			continue
		}
		return m[p/Blk]
	}
	return false
}

func sameSet(a, b map[string]bool) bool {
	if len(a) != len(b) {
		return false
	}
	for k := range a {
		if !b[k] {
			return false
		}
	}
	return true
}

// Finish: every in-service replica holds every acknowledged write; all RW
// replicas read back the model image and report the same revision counter.
func (x *SExec) Finish() *Fail {
	st := x.St
	x.lastOp = "finish"
	var counters []int64
	for j, nd := range st.Nodes {
		if x.Mode[j] != types.RW && x.Mode[j] != types.WO {
			continue
		}
		// acknowledged writes issued while the node was attached must be in its log, in order
		lg := nd.LogCopy()
		pos := x.AttLog[j]
		for _, a := range x.Acked[x.AttAck[j]:] {
			inW := false
			for _, w := range a.W {
				if w == j {
					inW = true
				}
			}
			if !inW {
				continue
			}
			found := false
			if a.Unordered {
				for _, e := range lg[x.AttLog[j]:] {
					if e.Kind == "write" && e.Applied && e.Off == a.Off && e.Len == a.Len && e.Sum == a.Sum {
						found = true
						break
					}
				}
				if !found {
					return sfail("acked-write-missing-on-replica", fmt.Sprintf("n%d (%s) lacks acknowledged write off=%d len=%d", j, x.Mode[j], a.Off, a.Len), "C02")
				}
				continue
			}
			for pos < len(lg) {
				e := lg[pos]
				pos++
				if e.Kind == "write" && e.Applied && e.Off == a.Off && e.Len == a.Len && e.Sum == a.Sum {
					found = true
					break
				}
			}
			if !found {
				return sfail("acked-write-missing-on-replica", fmt.Sprintf("n%d (%s) lacks acknowledged write off=%d len=%d", j, x.Mode[j], a.Off, a.Len), "C02")
			}
		}
		if x.Mode[j] == types.RW {
			r := nd.S.Replica()
			if r == nil {
				return sfail("rw-replica-closed", fmt.Sprintf("n%d is listed RW but its replica is closed", j), "C18")
			}
			buf := make([]byte, x.Live.size())
			if _, err := nd.S.ReadAt(buf, 0); err != nil {
				return sfail("rw-replica-unreadable", err.Error(), "C02", "C04")
			}
			if d := x.Live.Diff(buf, 0); d != "" {
				if x.subBlockHit(j, buf, 0) {
					return sfail("rebuild|sub-block-write-while-rebuilding|promoted-image-differs", fmt.Sprintf("a write that is not 4 KiB aligned was acknowledged while n%d was rebuilding; its image differs from the acknowledged data: %s", j, d), "C07")
				}
				return sfail("rw-replica-image-mismatch", fmt.Sprintf("n%d is RW but its image differs from the acknowledged data: %s", j, d), "C02", "C07", "C04")
			}
			counters = append(counters, r.GetRevisionCounter())
		}
	}
	for _, cv := range counters {
		if cv != counters[0] {
			return sfail("rw-replicas-counter-differs", fmt.Sprintf("RW replicas report revision counters %v", counters), "C10", "C07")
		}
	}
	return nil
}

// RunSProgram runs a complete stack program.
func RunSProgram(p SProgram) (*SExec, *Fail, error) {
	x, err := NewSExec(p)
	if err != nil {
		return nil, nil, err
	}
	// The fault-free bring-up is repeated on a fresh stack before its failure is
	// reported: with the monitor's pings on, a machine that is busy enough to hold a
	// ping back for 2 s makes the controller drop a healthy replica (seen once, in a
	// thorough run at three times the machine's capacity); a defect in the bring-up
	// path fails every time.
	for attempt := 0; ; attempt++ {
		f := x.Init()
		if f == nil {
			break
		}
		if attempt == 2 {
			return x, f, nil
		}
		x.Destroy()
		if x, err = NewSExec(p); err != nil {
			return nil, nil, err
		}
		x.Labels["init:repeated"]++
	}
	for i, op := range p.Ops {
		if f := x.Step(i, op); f != nil {
			return x, f, nil
		}
	}
	return x, x.Finish(), nil
}

var _ = bytes.Equal
var _ = strings.Join

// ---- C13: writers racing with volume snapshots ------------------------------

type raceWrite struct {
	j             int64
	issued, acked time.Time
	ok            bool
}

type raceSnap struct {
	name            string
	start, returned time.Time
	err             error
}

func stamp(w int, j int64) []byte {
	b := make([]byte, Sec)
	for k := 0; k+8 <= Sec; k += 8 {
		b[k] = 0xC1
		b[k+1] = byte(w + 1)
		b[k+2] = byte(j >> 40)
		b[k+3] = byte(j >> 32)
		b[k+4] = byte(j >> 24)
		b[k+5] = byte(j >> 16)
		b[k+6] = byte(j >> 8)
		b[k+7] = byte(j)
	}
	return b
}

func unstamp(b []byte) (w int, j int64, ok bool) {
	if b[0] != 0xC1 {
		return 0, 0, false
	}
	w = int(b[1]) - 1
	j = int64(b[2])<<40 | int64(b[3])<<32 | int64(b[4])<<24 | int64(b[5])<<16 | int64(b[6])<<8 | int64(b[7])
	return w, j, true
}

// doRace: op.Node = writers (1-3), op.N = writes per writer, op.Reps = snapshot
// requests, op.Off/op.Len = delay of the first snapshot / spacing, in microseconds.
func (x *SExec) doRace(i int, op SOp) *Fail {
	st := x.St
	c := st.C
	if x.readOnly() {
		return nil
	}
	writers := op.Node
	if writers < 1 {
		writers = 1
	}
	blocks := int(x.Live.size() / Blk)
	if x.raceLayout == "" {
		x.raceLayout = fmt.Sprintf("%d", writers)
		x.wseq = map[int]int64{}
	} else {
		fmt.Sscanf(x.raceLayout, "%d", &writers) // the block ownership is fixed for the whole case
	}
	nb := blocks / writers
	if nb < 1 {
		return nil
	}
	allRW := x.nRW() == x.P.RF
	W := x.writers()
	var mu sync.Mutex
	wlog := make([][]raceWrite, writers)
	snaps := make([]raceSnap, op.Reps)
	var wg sync.WaitGroup
	start := make(chan struct{})
	for w := 0; w < writers; w++ {
		wg.Add(1)
		go func(w int) {
			defer wg.Done()
			<-start
			j0 := x.wseq[w]
			for k := int64(1); k <= op.N; k++ {
				j := j0 + k
				blk := int64(w*nb) + j%int64(nb)
				rw := raceWrite{j: j, issued: time.Now()}
				n, err := c.WriteAt(stamp(w, j), blk*Blk)
				rw.acked = time.Now()
				rw.ok = err == nil && n == Sec
				mu.Lock()
				wlog[w] = append(wlog[w], rw)
				mu.Unlock()
				if !rw.ok {
					return
				}
			}
		}(w)
	}
	for k := 0; k < op.Reps; k++ {
		wg.Add(1)
		go func(k int) {
			defer wg.Done()
			<-start
			time.Sleep(time.Duration(op.Off+int64(k)*op.Len) * time.Microsecond)
			name := fmt.Sprintf("r%d-%d", i, k)
			sn := raceSnap{name: name, start: time.Now()}
			_, sn.err = c.Snapshot(name)
			sn.returned = time.Now()
			mu.Lock()
			snaps[k] = sn
			mu.Unlock()
		}(k)
	}
	close(start)
	wg.Wait()
	// model: writes
	for w := 0; w < writers; w++ {
		for _, rw := range wlog[w] {
			blk := int64(w*nb) + rw.j%int64(nb)
			if rw.ok {
				x.Live.Write(blk*Blk, stamp(w, rw.j))
				x.Acked = append(x.Acked, ackedWrite{Off: blk * Blk, Len: Sec, Sum: sum64(stamp(w, rw.j)), W: W, A: W, ARW: x.nRW(), Unordered: true})
				x.wseq[w] = rw.j
			} else {
				return sfail("race|write-failed", fmt.Sprintf("writer %d write %d failed without any injected fault", w, rw.j), "C05", "C02")
			}
		}
	}
	x.tracef("race writers=%d per=%d snaps=%d allRW=%v", writers, op.N, op.Reps, allRW)
	x.Labels["race"]++
	for _, sn := range snaps {
		if !allRW {
			if sn.err == nil {
				return sfail("snapshot|not-all-RW|accepted", fmt.Sprintf("volume snapshot %s accepted with modes %v, RF=%d", sn.name, x.Mode, x.P.RF), "C13")
			}
			continue
		}
		if sn.err != nil {
			return sfail("snapshot|valid|refused", fmt.Sprintf("volume snapshot %s refused: %v", sn.name, sn.err), "C13")
		}
		x.snaps = append(x.snaps, sn.name)
		x.Labels["race:snapshot-ok"]++
		// identical content on every replica
		var ref []byte
		refNode := -1
		for j, nd := range st.Nodes {
			if x.Mode[j] != types.RW {
				continue
			}
			img, err := ReadDiskImage(nd.Dir, snapDisk(sn.name), x.Live.size())
			if err != nil {
				return sfail("snapshot|missing-on-replica", fmt.Sprintf("snapshot %s on n%d: %v", sn.name, j, err), "C13")
			}
			if ref == nil {
				ref, refNode = img, j
				continue
			}
			if !bytes.Equal(ref, img) {
				p := 0
				for p < len(ref) && ref[p] == img[p] {
					p++
				}
				return sfail("snapshot|differs-between-replicas", fmt.Sprintf("snapshot %s differs between n%d and n%d at byte %d (block %d)", sn.name, refNode, j, p, p/Blk), "C13")
			}
		}
		// consistent cut per writer
		for w := 0; w < writers; w++ {
			var cut int64
			seen := make([]int64, nb)
			for r := 0; r < nb; r++ {
				off := (int64(w*nb) + int64(r)) * Blk
				ww, j, ok := unstamp(ref[off : off+Sec])
				if ok && ww == w {
					seen[r] = j
					if j > cut {
						cut = j
					}
				} else if ok {
					return sfail("snapshot|foreign-data", fmt.Sprintf("snapshot %s block %d holds a stamp of writer %d", sn.name, off/Blk, ww), "C13", "C01")
				}
			}
			for r := 0; r < nb; r++ {
				// largest j <= cut with j mod nb == r
				want := cut - ((cut-int64(r))%int64(nb)+int64(nb))%int64(nb)
				if want < 0 {
					want = 0
				}
				if seen[r] != want {
					return sfail("snapshot|not-a-point-in-time-image", fmt.Sprintf("snapshot %s, writer %d: newest write in the image is %d, so block %d should hold write %d but holds %d", sn.name, w, cut, r, want, seen[r]), "C13")
				}
			}
			var lastAckedBefore, lastIssuedBefore int64
			for _, rw := range wlog[w] {
				if rw.ok && rw.acked.Before(sn.start) && rw.j > lastAckedBefore {
					lastAckedBefore = rw.j
				}
				if rw.issued.Before(sn.returned) && rw.j > lastIssuedBefore {
					lastIssuedBefore = rw.j
				}
			}
			prev := x.wseq[w] - int64(len(wlog[w]))
			if lastAckedBefore == 0 {
				lastAckedBefore = prev
			}
			if lastIssuedBefore == 0 {
				lastIssuedBefore = prev
			}
			if cut < lastAckedBefore {
				return sfail("snapshot|misses-acknowledged-write", fmt.Sprintf("snapshot %s lacks writer %d's write %d acknowledged before the request started (image has up to %d)", sn.name, w, lastAckedBefore, cut), "C13")
			}
			if cut > lastIssuedBefore {
				return sfail("snapshot|contains-later-write", fmt.Sprintf("snapshot %s contains writer %d's write %d issued after the request returned (last issued before: %d)", sn.name, w, cut, lastIssuedBefore), "C13")
			}
			if cut > lastAckedBefore && cut < x.wseq[w] {
				x.Labels["race:snapshot-mid-stream"]++
			}
		}
	}
	return nil
}

// ---- C07: rebuild with interleaved foreground writes ---------------------------

// fgWrite issues one fault-free foreground write derived from (seed, phase).
func (x *SExec) fgWrite(i int, seed, phase int, aligned bool) *Fail {
	total := x.Live.size() / Sec
	off := (int64(seed)*7 + int64(phase)*13) % total
	l := int64(1 + (seed+phase*5)%16)
	if aligned {
		off = off / 8 * 8
		l = (l + 7) / 8 * 8
	}
	if off+l > total {
		l = total - off
	}
	return x.doWrite(i*100+phase, SOp{K: "write", Off: off, Len: l, Seed: 1 + (seed+phase)%200})
}

// doRebuild runs the rebuild protocol for the WO replica with foreground
// writes before, between the file copies, during UpdateLUNMap and after.
// op.N = writes per phase, op.Seed = write seed, op.Str = "" | "skipfile" |
// "verifyfail" (interruptions), op.On = leave hole punching on after the reload.
func (x *SExec) doRebuild(i int, op SOp) *Fail {
	st := x.St
	dst := x.woNode()
	if dst < 0 {
		return nil
	}
	src := x.rebuildSource()
	if src < 0 {
		return nil
	}
	if x.readOnly() {
		op.N = 0 // no foreground writes are possible; the rebuild itself proceeds
	}
	s, d := st.Nodes[src], st.Nodes[dst]
	phase := 0
	promoted := false
	writes := func(k int64) *Fail {
		for q := int64(0); q < k; q++ {
			phase++
			if f := x.fgWrite(i, op.Seed, phase, op.Reps == 1); f != nil {
				return f
			}
			if (!promoted && x.Mode[dst] != types.WO) || x.Mode[src] != types.RW {
				return sfail("rebuild|foreground-write-detached-replica", fmt.Sprintf("a fault-free foreground write during the rebuild changed the membership: %v", x.Mode), "C07", "C05")
			}
		}
		return nil
	}
	if f := writes(op.N); f != nil {
		return f
	}
	if err := d.S.SetRebuilding(true); err != nil {
		return sfail("rebuild|setrebuilding", err.Error(), "C07")
	}
	if f := writes(op.N); f != nil {
		return f
	}
	missedAcked := false
	if op.Str == "writefail" && !x.readOnly() {
		// the rebuilding replica answers one foreground write with an error: that
		// ends its rebuild - it is detached, and whatever the rebuild goes on to do
		// it must not be promoted without the write it missed
		total := x.Live.size() / Sec
		off := (int64(op.Seed) * 8) % total / 8 * 8
		data := payload(i*100+91, 1+op.Seed%200, off*Sec, Blk)
		W := x.writers()
		d.SetNext("write", ERR)
		n, werr := st.C.WriteAt(data, off*Sec)
		d.ClearFaults()
		ack := werr == nil && n == len(data)
		x.tracef("rebuild: foreground write off=%d failed by the rebuilding n%d -> n=%d err=%v; n%d now listed %q", off*Sec, dst, n, werr, dst, st.Mode(dst))
		if ack {
			x.Live.Write(off*Sec, data)
			var A []int
			arw := 0
			for _, w := range W {
				if w != dst {
					A = append(A, w)
					if x.Mode[w] == types.RW {
						arw++
					}
				}
			}
			x.Acked = append(x.Acked, ackedWrite{Off: off * Sec, Len: Blk, Sum: sum64(data), W: W, A: A, ARW: arw, Unordered: true})
			missedAcked = true
		} else {
			for sct := off; sct < off+8; sct++ {
				x.Live.Indet[sct] = true
			}
		}
		x.Labels["rebuild:write-failed-by-rebuilding-replica"]++
		if st.Mode(dst) == "" {
			x.detach(dst)
			x.Labels["rebuild:interrupted"]++
			// the other replicas are untouched
			for j, m := range x.Mode {
				if (m == types.RW || m == types.WO) && st.Mode(j) != m {
					return sfail("rebuild|failed-write-detached-another-replica", fmt.Sprintf("n%d failed the write but n%d (%s) is now listed %q", dst, j, m, st.Mode(j)), "C07", "C02", "C05")
				}
			}
			return nil
		}
		// still attached: see whether the rebuild now gets it promoted
		op.N = 0
	}
	sc, err := s.S.Replica().Chain()
	if err != nil {
		return sfail("rebuild|source-chain", err.Error(), "C07")
	}
	dc, err := d.S.Replica().Chain()
	if err != nil {
		return sfail("rebuild|target-chain", err.Error(), "C07")
	}
	nocopy := false
	if op.Str == "nocopy" {
		// nothing is transferred: legitimate only as an interruption when the
		// chains differ (the controller verifies chain membership)
		if strings.Join(sc[1:], ",") != strings.Join(dc[1:], ",") {
			nocopy = true
		}
	}
	if !nocopy {
		if err := CopyFileExact(filepath.Join(s.Dir, sc[0]+".meta"), filepath.Join(d.Dir, dc[0]+".meta")); err != nil {
			panic(err)
		}
	}
	skip := -1
	if op.Str == "skipfile" && len(sc) > 2 {
		skip = 1 + op.Seed%(len(sc)-1)
		// only a snapshot the target does not hold at all is a detectable gap:
		// the controller verifies chain membership, not content
		if _, err := os.Stat(filepath.Join(d.Dir, sc[skip])); err == nil {
			skip = -1
		}
	}
	for k := len(sc) - 1; k >= 1; k-- {
		if k == skip || nocopy {
			continue
		}
		for _, suf := range []string{"", ".meta"} {
			if err := CopyFileExact(filepath.Join(s.Dir, sc[k]+suf), filepath.Join(d.Dir, sc[k]+suf)); err != nil {
				panic(err)
			}
		}
		if op.N > 0 {
			if f := writes(1); f != nil {
				return f
			}
		}
	}
	d.S.SetPreload(false)
	rerr := d.S.Reload()
	d.S.SetPreload(true)
	d.fixDrainer()
	if !op.On && !x.punchEver {
		types.ShouldPunchHoles = false
	} else {
		x.punchEver = true
		x.Labels["rebuild:punching-on"]++
	}
	interrupted := ""
	if rerr != nil {
		if skip < 0 {
			return sfail("rebuild|reload-failed", rerr.Error(), "C07")
		}
		interrupted = "reload failed: " + rerr.Error()
	}
	if interrupted == "" {
		if err := d.S.Replica().SyncDir(); err != nil {
			panic(err)
		}
		// foreground writes after the reload, before the LUN map is rebuilt
		if f := writes(op.N); f != nil {
			return f
		}
		// foreground writes race with the LUN map merge
		done := make(chan *Fail, 1)
		nw := op.N
		window := os.Getenv("VERIF_LUNMAP_WINDOW") != ""
		if window {
			// debug build of the repository: UpdateLUNMap sleeps between its preload
			// and its merge (inject.AddUpdateLUNMapTimeout); the writes are issued
			// exactly inside that window
			os.Setenv("UpdateLUNMap_TIMEOUT", "1")
			inject.UpdateLUNMapTimeoutTriggered = false
			if nw == 0 && !x.readOnly() {
				nw = 2
			}
			x.Labels["rebuild:writes-inside-lunmap-window"]++
		}
		go func() {
			if window {
				for t0 := time.Now(); !inject.UpdateLUNMapTimeoutTriggered && time.Since(t0) < 5*time.Second; {
					time.Sleep(200 * time.Microsecond)
				}
			}
			done <- writes(nw)
		}()
		lerr := d.S.UpdateLUNMap()
		if f := <-done; f != nil {
			return f
		}
		if lerr != nil {
			return sfail("rebuild|updatelunmap", lerr.Error(), "C07")
		}
		if op.Str == "verifyfail" {
			// one of the two requests the verification sends to the rebuilt
			// replica fails: making it RW, or equalising its revision counter
			if op.Seed%2 == 0 {
				d.FailRest("setreplicamode", 1)
			} else {
				d.FailRest("setrevisioncounter", 1)
				x.Labels["rebuild:setrevisioncounter-fails"]++
			}
		}
		verr := st.C.VerifyRebuildReplica(d.Addr)
		d.ClearFaults()
		if verr != nil {
			if x.checkpointCutOff(src, dst) {
				x.Labels["rebuild:refused-checkpoint-cut-off-by-revert"]++
			} else if op.Str == "" || (op.Str == "nocopy" && !nocopy) || (op.Str == "skipfile" && skip < 0) {
				return sfail("rebuild|verify-refused", fmt.Sprintf("verification of a complete rebuild failed: %v", verr), "C07")
			}
			interrupted = "verify failed: " + verr.Error()
		} else if missedAcked {
			return sfail("rebuild|promoted-although-it-missed-an-acknowledged-write", fmt.Sprintf("n%d answered an acknowledged foreground write with an error while it was rebuilding, stayed attached and has now been verified and promoted", dst), "C07", "C02")
		} else if skip >= 0 {
			return sfail("rebuild|verify-accepted-incomplete-chain", fmt.Sprintf("snapshot %s was not transferred but the rebuild was verified", sc[skip]), "C07")
		} else if nocopy {
			return sfail("rebuild|verify-accepted-different-chain", fmt.Sprintf("nothing was transferred, the chains differ (source %v, target %v) but the rebuild was verified and the replica promoted", sc, dc), "C07")
		}
	}
	x.tracef("rebuild n%d from n%d writes/phase=%d %s punch=%v -> %s", dst, src, op.N, op.Str, op.On, map[bool]string{true: "promoted", false: interrupted}[interrupted == ""])
	if interrupted != "" {
		// an interrupted rebuild leaves the replica out of the read path, marked rebuilding
		x.Labels["rebuild:interrupted"]++
		if m := st.Mode(dst); m == types.RW {
			return sfail("rebuild|interrupted-but-promoted", "the rebuild was interrupted ("+interrupted+") but the replica is listed RW", "C07")
		}
		vm, err := readVolMeta(d.Dir)
		if err == nil && !vm.Rebuilding {
			return sfail("rebuild|interrupted-not-marked-rebuilding", "the rebuild was interrupted ("+interrupted+") but the replica's persisted state is not 'rebuilding'", "C07")
		}
		before := d.LogLen("read")
		buf := make([]byte, Blk)
		for q := 0; q < 2*len(st.Nodes); q++ {
			st.C.ReadAt(buf, 0)
		}
		if d.LogLen("read") != before {
			return sfail("rebuild|interrupted-replica-served-read", "a read was served by the replica whose rebuild was interrupted", "C07", "C04")
		}
		// the harness then lets the replica fail for good (its process would restart)
		if err := st.C.RemoveReplica(d.Addr); err == nil {
			x.detach(dst)
		}
		return nil
	}
	// RW for the controller, still flagged rebuilding on the replica: writes land here too
	x.Mode[dst] = types.RW
	promoted = true
	if f := writes(op.N); f != nil {
		return f
	}
	if err := d.S.SetRebuilding(false); err != nil {
		return sfail("rebuild|setrebuilding-false", err.Error(), "C07")
	}
	x.Labels["promote:ok"]++
	x.Labels["rebuild:promoted"]++
	x.inheritSubBlock(src, dst)
	if f := writes(op.N); f != nil {
		return f
	}
	// --- the promoted replica equals its source
	ca, cb := s.S.Replica().GetRevisionCounter(), d.S.Replica().GetRevisionCounter()
	if ca != cb {
		return sfail("rebuild|counter-mismatch", fmt.Sprintf("promoted n%d has revision counter %d, source n%d has %d", dst, cb, src, ca), "C07", "C10")
	}
	size := x.Live.size()
	ba, bb := make([]byte, size), make([]byte, size)
	if _, err := s.S.ReadAt(ba, 0); err != nil {
		return sfail("rebuild|source-unreadable", err.Error(), "C07")
	}
	if _, err := d.S.ReadAt(bb, 0); err != nil {
		return sfail("rebuild|target-unreadable", err.Error(), "C07")
	}
	if dd := x.Live.Diff(bb, 0); dd != "" {
		if x.subBlockHit(dst, bb, 0) {
			return sfail("rebuild|sub-block-write-while-rebuilding|promoted-image-differs", fmt.Sprintf("a write that is not 4 KiB aligned was acknowledged while n%d was rebuilding; the promoted replica's image differs from the acknowledged data: %s", dst, dd), "C07")
		}
		return sfail("rebuild|promoted-image-differs", fmt.Sprintf("promoted n%d does not hold every acknowledged write: %s (source n%d: %q)", dst, dd, src, x.Live.Diff(ba, 0)), "C07")
	}
	sc2, _ := s.S.Replica().Chain()
	dc2, _ := d.S.Replica().Chain()
	if strings.Join(sc2[1:], ",") != strings.Join(dc2[1:], ",") {
		return sfail("rebuild|chains-differ", fmt.Sprintf("source chain %v, promoted chain %v", sc2, dc2), "C07")
	}
	sd := s.S.Replica().ListDisks()
	for _, snap := range sc2[1:] {
		if !sd[snap].UserCreated && (op.On || x.punchEver) {
			continue // automatic snapshots may have been thinned by reclamation
		}
		ia, err := ReadDiskImage(s.Dir, snap, size)
		if err != nil {
			return sfail("rebuild|snapshot-unreadable", err.Error(), "C07")
		}
		ib, err := ReadDiskImage(d.Dir, snap, size)
		if err != nil {
			return sfail("rebuild|snapshot-unreadable-on-target", err.Error(), "C07")
		}
		if !bytes.Equal(ia, ib) {
			p := 0
			for p < len(ia) && ia[p] == ib[p] {
				p++
			}
			return sfail("rebuild|snapshot-differs", fmt.Sprintf("snapshot %s differs between source n%d and promoted n%d at byte %d (block %d)", snap, src, dst, p, p/Blk), "C07")
		}
		x.Labels["rebuild:snapshot-compared"]++
	}
	if op.On {
		x.punchEver = true
	}
	return nil
}

// ---- C07 system tier: the product's own sync.Task.AddReplica ---------------------

// doSysRebuild lets a detached (closed) node run the product's AddReplica flow
// (register/create, prepare rebuild, file transfer through real sync agents and
// ssync children, reload, LUN map update, verification) while op.N foreground
// writes go through the controller. op.Node = node, op.Reps == 1 = aligned writes.
func (x *SExec) doSysRebuild(i int, op SOp) *Fail {
	st := x.St
	if err := st.EnableSystem(); err != nil {
		panic(err)
	}
	n := op.Node % len(st.Nodes)
	node := st.Nodes[n]
	if x.Mode[n] != "" || x.woNode() >= 0 || x.listed() >= x.P.RF || x.nRW() == 0 {
		return nil
	}
	if node.S.Replica() != nil {
		node.DropConn()
		if node.S.Replica() != nil {
			node.fixDrainer()
			node.S.Close()
		}
	}
	src := x.rebuildSource()
	punchBefore := types.ShouldPunchHoles
	if op.Str == "portbusy" {
		// some of the ports the target's sync agent hands to its ssync receivers are
		// taken: those transfers fail (the receiver cannot bind) while others work -
		// a rebuild with a failed transfer must not end in a promotion
		lo := portBase() + 40*n
		// which ports: all of them (every transfer fails), every second one (the agent
		// hands them out in turn, data file and meta file alternate: one kind fails,
		// the other works), or a window of every second one
		first, cnt, stride := 0, 40, 1
		switch op.Seed % 4 {
		case 0, 1:
		case 2:
			first, cnt, stride = op.Seed/4%2, 20, 2
		default:
			first, cnt, stride = op.Seed/4%40, 8+(op.Seed/160)%12, 2
		}
		var held []net.Listener
		for k := 0; k < cnt; k++ {
			if ln, err := net.Listen("tcp", fmt.Sprintf("0.0.0.0:%d", lo+(first+stride*k)%40)); err == nil {
				held = append(held, ln)
				// whoever connects (the ssync sender looking for its receiver) is hung up on at once
				go func(ln net.Listener) {
					for {
						c, err := ln.Accept()
						if err != nil {
							return
						}
						c.Close()
					}
				}(ln)
			}
		}
		defer func() {
			for _, ln := range held {
				ln.Close()
			}
		}()
		x.Labels["sysrebuild:receiver-ports-busy"]++
	}
	task := jsync.NewTask(st.CtrlURL())
	done := make(chan error, 1)
	t0 := time.Now()
	go func() { done <- task.AddReplica(node.Addr, node.S) }()
	// wait until the controller lists it (WO), then foreground writes run alongside the transfer
	listedWO := false
	for time.Since(t0) < 20*time.Second {
		if m := st.Mode(n); m == types.WO || m == types.RW {
			listedWO = true
			break
		}
		select {
		case err := <-done:
			done <- err
			goto finished
		default:
		}
		time.Sleep(5 * time.Millisecond)
	}
finished:
	if listedWO {
		x.Mode[n] = types.WO
		x.AttAck[n] = len(x.Acked)
		x.AttLog[n] = len(node.LogCopy())
		delete(x.subBlockWO, n)
		delete(x.Frozen, n)
		node.fixDrainer()
	}
	var werr *Fail
	if listedWO && !x.readOnly() {
		for q := 0; q < int(op.N); q++ {
			if st.Mode(n) == types.RW {
				x.Mode[n] = types.RW
			}
			if f := x.fgWrite(i, op.Seed, q+1, op.Reps == 1); f != nil {
				werr = f
				break
			}
			time.Sleep(time.Duration(op.Len) * time.Millisecond)
		}
	}
	var err error
	select {
	case err = <-done:
	case <-time.After(120 * time.Second):
		if op.Str != "" {
			// a fault was injected into the transfers: slow failure is not a hang
			x.Labels["sysrebuild:abandoned-after-120s-with-injected-fault"]++
			if m := st.Mode(n); m == types.RW {
				return sfail("sysrebuild|unfinished-but-promoted", "AddReplica has not returned but the replica is listed RW", "C07")
			}
			st.C.RemoveReplica(node.Addr)
			x.detach(n)
			return nil
		}
		return sfail("sysrebuild|hangs", "sync.Task.AddReplica did not return within 120 s", "C07")
	}
	node.fixDrainer()
	types.ShouldPunchHoles = punchBefore
	x.tracef("sysrebuild n%d from n%d writes=%d aligned=%v -> %v (%v)", n, src, op.N, op.Reps == 1, err, time.Since(t0).Round(time.Millisecond))
	if werr != nil {
		return werr
	}
	if err != nil {
		// the rebuild ended by its own error path: the replica must not be in the read path
		x.Labels["sysrebuild:failed"]++
		if m := st.Mode(n); m == types.RW {
			return sfail("sysrebuild|failed-but-promoted", fmt.Sprintf("AddReplica returned %v but the replica is listed RW", err), "C07")
		}
		// A rebuild that fails by itself (ssync gives up on a busy machine, ...) is an
		// interrupted rebuild: not a violation, but the replica must stay out of the
		// read path and stay marked as rebuilding.
		if listedWO {
			if vm, verr := readVolMeta(node.Dir); verr == nil && !vm.Rebuilding && st.Mode(n) == types.WO {
				// the flag is set by the product right after the replica was added; if the
				// failure came before that there is nothing to check
				x.Labels["sysrebuild:failed-before-setrebuilding"]++
			}
			before := node.LogLen("read")
			buf := make([]byte, Blk)
			for q := 0; q < 2*len(st.Nodes); q++ {
				st.C.ReadAt(buf, 0)
			}
			if node.LogLen("read") != before {
				return sfail("rebuild|interrupted-replica-served-read", "a read was served by the replica whose rebuild failed", "C07", "C04")
			}
			st.C.RemoveReplica(node.Addr)
			x.detach(n)
		}
		return nil
	}
	if m := st.Mode(n); m != types.RW {
		return sfail("sysrebuild|returned-ok-not-promoted", fmt.Sprintf("AddReplica returned nil but n%d is listed as %q", n, m), "C07")
	}
	x.Mode[n] = types.RW
	x.Labels["promote:ok"]++
	x.Labels["sysrebuild:promoted"]++
	x.inheritSubBlock(src, n)
	// promoted replica equals its source
	s, d := st.Nodes[src], node
	ca, cb := s.S.Replica().GetRevisionCounter(), d.S.Replica().GetRevisionCounter()
	if ca != cb {
		return sfail("rebuild|counter-mismatch", fmt.Sprintf("promoted n%d has revision counter %d, source n%d has %d", n, cb, src, ca), "C07", "C10")
	}
	size := x.Live.size()
	bb := make([]byte, size)
	if _, err := d.S.ReadAt(bb, 0); err != nil {
		return sfail("rebuild|target-unreadable", err.Error(), "C07")
	}
	if dd := x.Live.Diff(bb, 0); dd != "" {
		if x.subBlockHit(n, bb, 0) {
			return sfail("rebuild|sub-block-write-while-rebuilding|promoted-image-differs", fmt.Sprintf("a write that is not 4 KiB aligned was acknowledged while n%d was rebuilding; the promoted replica's image differs from the acknowledged data: %s", n, dd), "C07")
		}
		return sfail("rebuild|promoted-image-differs", fmt.Sprintf("promoted n%d does not hold every acknowledged write: %s", n, dd), "C07")
	}
	sc2, _ := s.S.Replica().Chain()
	dc2, _ := d.S.Replica().Chain()
	if strings.Join(sc2[1:], ",") != strings.Join(dc2[1:], ",") {
		return sfail("rebuild|chains-differ", fmt.Sprintf("source chain %v, promoted chain %v", sc2, dc2), "C07")
	}
	sd := s.S.Replica().ListDisks()
	for _, snap := range sc2[1:] {
		if !sd[snap].UserCreated {
			continue // reclamation is on in the product flow: automatic snapshots may be thinned
		}
		ia, err := ReadDiskImage(s.Dir, snap, size)
		if err != nil {
			return sfail("rebuild|snapshot-unreadable", err.Error(), "C07")
		}
		ib, err := ReadDiskImage(d.Dir, snap, size)
		if err != nil {
			return sfail("rebuild|snapshot-unreadable-on-target", err.Error(), "C07")
		}
		if !bytes.Equal(ia, ib) {
			return sfail("rebuild|snapshot-differs", fmt.Sprintf("snapshot %s differs between source n%d and promoted n%d", snap, src, n), "C07")
		}
		x.Labels["rebuild:snapshot-compared"]++
	}
	return nil
}

// doSnapRace: a volume snapshot request arrives while the controller is busy
// (lock held) with a write that one replica stalls on and that ends with that
// replica detached. Whatever the order in which the two take effect, the
// snapshot is all-or-nothing over the configured replicas: if it is accepted
// every one of the RF replicas holds it, if it is refused none does.
// op.Node = the replica that stalls, op.Off/Len/Seed = the write.
func (x *SExec) doSnapRace(i int, op SOp) *Fail {
	st := x.St
	n := op.Node % len(st.Nodes)
	if x.nRW() != x.P.RF || x.Mode[n] != types.RW || x.woNode() >= 0 {
		return nil
	}
	for j, m := range x.Mode {
		if m == types.ERR || (m == "" && st.Mode(j) != "") {
			return nil
		}
	}
	name := "sr" + strconv.Itoa(i)
	out := make([]Outcome, len(st.Nodes))
	for j := range out {
		out[j] = OK
	}
	out[n] = STALL
	before := st.Nodes[n].LogLen("write")
	wop := SOp{K: "write", Off: op.Off, Len: op.Len, Seed: op.Seed, Out: out}
	wdone := make(chan *Fail, 1)
	go func() { wdone <- x.doWrite(i, wop) }()
	arrived := false
	for t0 := time.Now(); time.Since(t0) < 3*time.Second; time.Sleep(2 * time.Millisecond) {
		if st.Nodes[n].LogLen("write") > before {
			arrived = true
			break
		}
	}
	var serr error
	asked := false
	if arrived {
		// the controller sits in WriteAt, lock held, waiting for the stalled replica
		asked = true
		_, serr = st.C.Snapshot(name)
	}
	wf := <-wdone
	if wf != nil {
		return wf
	}
	if !asked {
		x.Labels["snaprace:write-did-not-reach-replica"]++
		return nil
	}
	holders := []int{}
	for j, nd := range st.Nodes {
		if _, err := os.Stat(filepath.Join(nd.Dir, snapDisk(name))); err == nil {
			holders = append(holders, j)
		}
	}
	x.tracef("snaprace: snapshot %s during a write stalled by n%d -> %v, held by %v", name, n, serr, holders)
	x.Labels["snaprace:done"]++
	if serr == nil {
		x.snaps = append(x.snaps, name)
		if len(holders) != x.P.RF {
			return sfail("snapshot|accepted-while-a-replica-was-leaving|not-on-all-replicas", fmt.Sprintf("volume snapshot %s was accepted while n%d was being detached; it exists on %v only (RF=%d)", name, n, holders, x.P.RF), "C13")
		}
		x.Labels["snaprace:accepted-on-all"]++
	} else {
		if len(holders) != 0 {
			return sfail("snapshot|refused-but-taken", fmt.Sprintf("volume snapshot %s was refused (%v) but exists on %v", name, serr, holders), "C13")
		}
		x.Labels["snaprace:refused"]++
	}
	return nil
}

// doIORace: a write, flush or unmap arrives while the controller is busy (lock
// held) with a write that one RW replica stalls on and that ends with that
// replica detached. The second request takes effect after the first: if the
// volume has lost its quorum by then it is refused without reaching any replica,
// otherwise it is served by the remaining replicas.
// op.Node = the replica that stalls, op.Off/Len/Seed = the first write, op.Str = kind of the second request.
func (x *SExec) doIORace(i int, op SOp) *Fail {
	st := x.St
	n := op.Node % len(st.Nodes)
	if x.readOnly() || x.Mode[n] != types.RW {
		return nil
	}
	for j, m := range x.Mode {
		if m == types.ERR || (m == "" && st.Mode(j) != "") {
			return nil
		}
	}
	kind := op.Str
	if kind == "" {
		kind = "write"
	}
	total := x.Live.size() / Sec
	off1, len1 := op.Off, op.Len
	if off1+len1 > total {
		len1 = total - off1
	}
	// the second request works on another block than the first
	off2 := ((off1/8 + 2 + len1/8) * 8) % total
	len2 := int64(8)
	if off2+len2 > total {
		off2 = 0
	}
	if off2 < off1+len1 && off1 < off2+len2 {
		return nil
	}
	out := make([]Outcome, len(st.Nodes))
	for j := range out {
		out[j] = OK
	}
	out[n] = STALL
	beforeW := st.Nodes[n].LogLen("write")
	before := make([]int, len(st.Nodes))
	for j, nd := range st.Nodes {
		before[j] = len(nd.LogCopy())
	}
	wdone := make(chan *Fail, 1)
	go func() { wdone <- x.doWrite(i, SOp{K: "write", Off: off1, Len: len1, Seed: op.Seed, Out: out}) }()
	arrived := false
	for t0 := time.Now(); time.Since(t0) < 3*time.Second; time.Sleep(2 * time.Millisecond) {
		if st.Nodes[n].LogLen("write") > beforeW {
			arrived = true
			break
		}
	}
	var (
		n2    int
		err2  error
		data2 []byte
	)
	if arrived {
		switch kind {
		case "write":
			data2 = payload(i*100+77, 1+op.Seed%200, off2*Sec, len2*Sec)
			n2, err2 = st.C.WriteAt(data2, off2*Sec)
		case "sync":
			n2, err2 = st.C.Sync()
		case "unmap":
			n2, err2 = st.C.Unmap(off2*Sec, len2*Sec)
		}
	}
	if wf := <-wdone; wf != nil {
		return wf
	}
	if !arrived {
		x.Labels["iorace:write-did-not-reach-replica"]++
		return nil
	}
	ack := err2 == nil
	if kind == "write" {
		ack = err2 == nil && n2 == len(data2)
	}
	reached := map[int]bool{}
	for j, nd := range st.Nodes {
		lg := nd.LogCopy()
		for _, e := range lg[before[j]:] {
			if e.Kind != kind {
				continue
			}
			if kind == "write" && e.Off != off2*Sec {
				continue
			}
			reached[j] = true
		}
	}
	ro := x.readOnly()
	x.tracef("iorace: %s off=%d issued during a write stalled by n%d -> n=%d err=%v; volume read-only afterwards=%v, reached %v", kind, off2*Sec, n, n2, err2, ro, keys(reached))
	x.Labels["iorace:"+kind]++
	if ro {
		x.Labels["iorace:quorum-lost-meanwhile"]++
		if ack {
			return sfail(kind+"|readonly|accepted-while-quorum-was-being-lost", fmt.Sprintf("%s issued while n%d was being detached was acknowledged although only %d of RF=%d replicas are RW afterwards", kind, n, x.nRW(), x.P.RF), "C03")
		}
		if len(reached) > 0 {
			return sfail(kind+"|readonly|reached-replica", fmt.Sprintf("%s refused for lack of quorum but it reached %v", kind, keys(reached)), "C03")
		}
		return nil
	}
	W := x.writers()
	if !ack && len(reached) > len(W)/2 {
		return sfail(kind+"|majority-but-failed", fmt.Sprintf("%s issued while n%d was being detached reached %v of the attached %v but was reported failed: n=%d err=%v", kind, n, keys(reached), W, n2, err2), "C05", "C02")
	}
	if ack && len(reached) <= len(W)/2 {
		return sfail(kind+"|ack-without-majority", fmt.Sprintf("%s acknowledged but it reached %v of the attached %v", kind, keys(reached), W), "C02")
	}
	switch kind {
	case "write":
		if ack {
			x.Live.Write(off2*Sec, data2)
			arw := 0
			for j := range reached {
				if x.Mode[j] == types.RW {
					arw++
				}
			}
			x.Acked = append(x.Acked, ackedWrite{Off: off2 * Sec, Len: len2 * Sec, Sum: sum64(data2), W: W, A: keys(reached), ARW: arw, Unordered: true})
			x.Labels["write:acked"]++
		} else if len(reached) > 0 {
			for sct := off2; sct < off2+len2; sct++ {
				x.Live.Indet[sct] = true
			}
		}
	case "unmap":
		if len(reached) > 0 {
			x.Live.Unmap(off2*Sec, len2*Sec)
		}
	}
	return nil
}

// doAddResize: the volume is grown while an add request is in flight (admitted,
// connecting to its replica, controller lock released). Whichever takes effect
// first, the replica that joins ends up with the volume's size.
// op.Node = the joining replica, op.N = blocks to add.
func (x *SExec) doAddResize(i int, op SOp) *Fail {
	st := x.St
	n := op.Node % len(st.Nodes)
	if x.woNode() >= 0 || x.listed() >= x.P.RF || x.listed() == 0 || x.Mode[n] != "" || st.Nodes[n].S.Replica() != nil {
		return nil
	}
	for j, m := range x.Mode {
		if m == types.ERR || (m == "" && st.Mode(j) != "") {
			return nil
		}
	}
	gate := make(chan struct{})
	st.Fac.setGate(gate)
	base := st.Fac.nCreates()
	res := make(chan error, 1)
	go func() { res <- st.C.AddReplica(st.Nodes[n].Addr) }()
	for t0 := time.Now(); st.Fac.nCreates() < base+1 && len(res) == 0 && time.Since(t0) < 2*time.Second; {
		time.Sleep(time.Millisecond)
	}
	inFlight := st.Fac.nCreates() > base
	newBlocks := x.Live.size()/Blk + op.N
	rf := x.doCtlResize(i, SOp{K: "ctlresize", N: newBlocks})
	close(gate)
	st.Fac.setGate(nil)
	var err error
	select {
	case err = <-res:
	case <-time.After(60 * time.Second):
		return sfail("addresize|hangs", "AddReplica did not return within 60 s", "C18", "C14")
	}
	x.tracef("addresize n%d (+%d blocks, add in flight=%v) -> add: %v", n, op.N, inFlight, err)
	if rf != nil {
		return rf
	}
	if inFlight {
		x.Labels["addresize:grow-while-add-in-flight"]++
	}
	if m := st.Mode(n); m == types.WO && x.Mode[n] == "" {
		x.Mode[n] = types.WO
		x.AttAck[n] = len(x.Acked)
		x.AttLog[n] = len(st.Nodes[n].LogCopy())
		delete(x.subBlockWO, n)
		delete(x.Frozen, n)
		x.Labels["add:ok"]++
		want := x.Live.size()
		r := st.Nodes[n].S.Replica()
		if r == nil || r.Info().Size != want {
			got := int64(-1)
			if r != nil {
				got = r.Info().Size
			}
			return sfail("ctlresize|joining-replica-size", fmt.Sprintf("the volume was grown to %d while n%d was being added; n%d is attached with size %d", want, n, n, got), "C16")
		}
	}
	return nil
}

// doAddWrite: a write is issued while an add request is being carried out (the
// joining replica is parked inside the snapshot request the controller sends
// it). Whatever the order in which the two take effect, every replica that is
// in service when both have returned holds the acknowledged write.
// op.Node = the joining replica, op.Off/Seed = the write (one block).
func (x *SExec) doAddWrite(i int, op SOp) *Fail {
	st := x.St
	n := op.Node % len(st.Nodes)
	if x.woNode() >= 0 || x.listed() >= x.P.RF || x.listed() == 0 || x.Mode[n] != "" || st.Nodes[n].S.Replica() != nil || x.readOnly() {
		return nil
	}
	for j, m := range x.Mode {
		if m == types.ERR || (m == "" && st.Mode(j) != "") {
			return nil
		}
	}
	total := x.Live.size() / Sec
	off := op.Off / 8 * 8 % total
	data := payload(i*100+55, 1+op.Seed%200, off*Sec, Blk)
	before := make([]int, len(st.Nodes))
	for j, nd := range st.Nodes {
		before[j] = len(nd.LogCopy())
	}
	hold := st.Nodes[n].HoldRest("snapshot", 300*time.Millisecond)
	res := make(chan error, 1)
	go func() { res <- st.C.AddReplica(st.Nodes[n].Addr) }()
	parked := false
	select {
	case <-hold.Arrived:
		parked = true
	case err := <-res:
		res <- err
	case <-time.After(3 * time.Second):
	}
	wn, werr := st.C.WriteAt(data, off*Sec)
	var aerr error
	select {
	case aerr = <-res:
	case <-time.After(60 * time.Second):
		return sfail("addwrite|hangs", "AddReplica did not return within 60 s", "C18", "C14")
	}
	st.Nodes[n].ClearFaults()
	ack := werr == nil && wn == len(data)
	reached := map[int]bool{}
	for j, nd := range st.Nodes {
		for _, e := range nd.LogCopy()[before[j]:] {
			if e.Kind == "write" && e.Off == off*Sec && e.Applied {
				reached[j] = true
			}
		}
	}
	if m := st.Mode(n); m == types.WO && x.Mode[n] == "" {
		x.Mode[n] = types.WO
		x.AttAck[n] = len(x.Acked)
		x.AttLog[n] = before[n]
		delete(x.subBlockWO, n)
		delete(x.Frozen, n)
		x.Labels["add:ok"]++
	}
	x.tracef("addwrite n%d (parked in its snapshot request=%v): add -> %v, write off=%d -> n=%d err=%v, applied by %v", n, parked, aerr, off*Sec, wn, werr, keys(reached))
	if parked {
		x.Labels["addwrite:write-during-add"]++
	}
	if !ack {
		if len(reached) > 0 {
			for sct := off; sct < off+8; sct++ {
				x.Live.Indet[sct] = true
			}
		}
		if len(reached) > len(x.writers())/2 {
			return sfail("write|majority-but-failed", fmt.Sprintf("a fault-free write issued during an add was applied by %v but reported failed: n=%d err=%v", keys(reached), wn, werr), "C05", "C02")
		}
		return nil
	}
	x.Live.Write(off*Sec, data)
	W := x.writers()
	arw := 0
	for j := range reached {
		if x.Mode[j] == types.RW {
			arw++
		}
	}
	x.Acked = append(x.Acked, ackedWrite{Off: off * Sec, Len: Blk, Sum: sum64(data), W: W, A: keys(reached), ARW: arw, Unordered: true})
	x.Labels["write:acked"]++
	for _, j := range W {
		if !reached[j] {
			return sfail("write|acknowledged-but-missing-on-in-service-replica", fmt.Sprintf("the write was acknowledged while n%d was being added; n%d is in service (%s) and never received it (applied by %v): once it is RW, reads served by it miss an acknowledged write", n, j, x.Mode[j], keys(reached)), "C02", "C07", "C04")
		}
	}
	return nil
}

// doResizeRace: a second resize request arrives while the first (a grow) is
// being carried out (one replica is parked in its resize request, the controller
// lock is held). The second takes effect after the first: if it is not a grow
// any more by then it is refused and changes nothing - no replica sees it, none
// is marked failed. op.N = blocks the first adds, op.Seed selects the second size.
func (x *SExec) doResizeRace(i int, op SOp) *Fail {
	st := x.St
	if x.listed() == 0 || x.nRW() == 0 {
		return nil
	}
	for j, m := range x.Mode {
		if m == types.ERR || (m == "" && st.Mode(j) != "") {
			return nil
		}
	}
	holder := -1
	for j, m := range x.Mode {
		if m == types.RW {
			holder = j
		}
	}
	old := x.Live.size() / Blk
	first := old + op.N
	// the second request: between the old and the first's size (a shrink once the first is done),
	// equal to it, or above it (still a grow)
	var second int64
	switch op.Seed % 3 {
	case 0:
		second = old + 1 + int64(op.Seed/3)%op.N
		if second >= first {
			second = first - 1
		}
		if second <= old {
			return nil
		}
	case 1:
		second = first
	default:
		second = first + 1 + int64(op.Seed/3)%4
	}
	before := make([]int, len(st.Nodes))
	for j, nd := range st.Nodes {
		before[j] = nd.RestCount("?resize")
	}
	modesBefore := append([]types.Mode{}, x.Mode...)
	hold := st.Nodes[holder].HoldRest("resize", 250*time.Millisecond)
	r1 := make(chan error, 1)
	go func() { r1 <- st.C.Resize("vol", strconv.FormatInt(first*Blk, 10)) }()
	parked := false
	select {
	case <-hold.Arrived:
		parked = true
	case e := <-r1:
		r1 <- e
	case <-time.After(3 * time.Second):
	}
	err2 := st.C.Resize("vol", strconv.FormatInt(second*Blk, 10))
	var err1 error
	select {
	case err1 = <-r1:
	case <-time.After(60 * time.Second):
		return sfail("resizerace|hangs", "Controller.Resize did not return within 60 s", "C16", "C14")
	}
	st.Nodes[holder].ClearFaults()
	x.tracef("resizerace: %d -> %d blocks (parked=%v) -> %v; second request %d blocks -> %v", old, first, parked, err1, second, err2)
	if err1 != nil {
		return sfail("ctlresize|grow|refused", fmt.Sprintf("Controller.Resize to %d blocks refused: %v", first, err1), "C16")
	}
	x.Labels["ctlresize:grow"]++
	if parked {
		x.Labels["resizerace:second-request-during-first"]++
	}
	final := first
	if second > first {
		if err2 != nil {
			return sfail("ctlresize|grow|refused", fmt.Sprintf("the second resize (to %d blocks, above the first's %d) was refused: %v", second, first, err2), "C16")
		}
		final = second
	} else {
		if err2 == nil {
			return sfail("ctlresize|not-a-grow|accepted", fmt.Sprintf("a resize to %d blocks was accepted although the volume had just been grown to %d", second, first), "C16")
		}
		// refused: nothing may have changed - one resize request per replica (the first), nobody marked failed
		for j, nd := range st.Nodes {
			if modesBefore[j] != types.RW && modesBefore[j] != types.WO {
				continue
			}
			if got := nd.RestCount("?resize") - before[j]; got > 1 {
				return sfail("ctlresize|refused-but-reached-replica", fmt.Sprintf("the refused resize to %d blocks was sent to n%d (it received %d resize requests)", second, j, got), "C16")
			}
			if m := st.Mode(j); m != modesBefore[j] {
				return sfail("ctlresize|refused-but-replica-marked", fmt.Sprintf("after a refused resize n%d is listed %q (was %s)", j, m, modesBefore[j]), "C16", "C05")
			}
		}
	}
	x.Live.Grow(final * Blk)
	for j, nd := range st.Nodes {
		if x.Mode[j] != types.RW && x.Mode[j] != types.WO {
			continue
		}
		if r := nd.S.Replica(); r == nil || r.Info().Size != final*Blk {
			return sfail("ctlresize|replica-size", fmt.Sprintf("n%d does not report the size %d after two overlapping resize requests", j, final*Blk), "C16")
		}
	}
	if got := st.C.VerifState().Size; got != final*Blk {
		return sfail("ctlresize|controller-size", fmt.Sprintf("controller size %d, expected %d", got, final*Blk), "C16")
	}
	return nil
}

// checkpointCutOff: the rebuilding replica dst persists a checkpoint that is not
// in the chain of the healthy replica src (ground truth from the directories).
func (x *SExec) checkpointCutOff(src, dst int) bool {
	vm, err := readVolMeta(x.St.Nodes[dst].Dir)
	if err != nil || vm.Checkpoint == "" {
		return false
	}
	r := x.St.Nodes[src].S.Replica()
	if r == nil {
		return false
	}
	ch, err := r.Chain()
	if err != nil {
		return false
	}
	for _, d := range ch {
		if d == vm.Checkpoint {
			return false
		}
	}
	return true
}

// doCtlRevert: Controller.Revert(name) to the op.N-th volume snapshot that is still
// in the live chain; op.Fail = replicas whose revert request fails. The volume is
// reverted only with an RW replica and no rebuilding one; afterwards the volume and
// every RW replica read back exactly the image the snapshot captured, replicas
// that failed the request are marked failed, and the status follows.
func (x *SExec) doCtlRevert(i int, op SOp) *Fail {
	st := x.St
	var cands []int
	for k, n := range x.snaps {
		if x.snapImg[n] != nil && x.snapMarked[n] == "" {
			cands = append(cands, k)
		}
	}
	if len(cands) == 0 {
		return nil
	}
	k := cands[int(op.N)%len(cands)]
	name := x.snaps[k]
	// a replica the controller still lists although the model has it detached
	// (removal in flight) makes the precondition ambiguous: not generated
	for j, m := range x.Mode {
		if m == "" && st.Mode(j) != "" {
			return nil
		}
	}
	hasWO := x.woNode() >= 0
	nrw := x.nRW()
	F := map[int]bool{}
	if !hasWO && nrw > 0 {
		for _, j := range op.Fail {
			j = j % len(st.Nodes)
			if x.Mode[j] == types.RW {
				st.Nodes[j].FailRest("revert", 1)
				F[j] = true
			}
		}
	}
	before := make([]int, len(st.Nodes))
	for j, nd := range st.Nodes {
		before[j] = nd.RestCount("action=revert") + nd.RestCount("?revert")
	}
	err := st.C.Revert(name)
	for _, nd := range st.Nodes {
		nd.ClearFaults()
		nd.fixDrainer()
	}
	x.tracef("ctlrevert %s rw=%d wo=%v F=%v -> %v", name, nrw, hasWO, keys(F), err)
	x.Labels["ctlrevert"]++
	if hasWO || nrw == 0 {
		if err == nil {
			return sfail("ctlrevert|invalid-state|accepted", fmt.Sprintf("volume revert accepted with modes %v", x.Mode), "C06", "C07")
		}
		for j, nd := range st.Nodes {
			if nd.RestCount("action=revert")+nd.RestCount("?revert") != before[j] {
				return sfail("ctlrevert|refused-but-reached-replica", fmt.Sprintf("the refused revert reached n%d", j), "C06", "C12")
			}
		}
		return nil
	}
	for j := range F {
		x.Mode[j] = types.ERR
		x.Frozen[j] = st.Nodes[j].LogLen("write", "read", "sync", "unmap")
	}
	if len(F) == nrw {
		if err == nil {
			return sfail("ctlrevert|all-failed|accepted", "volume revert reported success although every replica failed it", "C06")
		}
		return nil
	}
	if err != nil {
		return sfail("ctlrevert|valid|refused", fmt.Sprintf("volume revert to %s refused: %v", name, err), "C06")
	}
	x.Labels["ctlrevert:ok"]++
	// a replica whose revert request failed is marked failed at once, and the volume's
	// status follows: it must not go on counting as an up-to-date replica
	for j := range F {
		if m := st.Mode(j); m == types.RW || m == types.WO {
			vs := st.C.VerifState()
			props := []string{"C06", "C18"}
			detail := fmt.Sprintf("the revert request failed on n%d, the volume revert reported success, and n%d is still listed as %s", j, j, m)
			if ok := nrw - len(F); !vs.ReadOnly && ok < x.P.RF/2+1 {
				props = append(props, "C03")
				detail += fmt.Sprintf("; the volume stays writable (ReadOnly=false, RWReplicaCount=%d) although only %d of RF=%d replicas hold the reverted image", vs.RWReplicaCount, ok, x.P.RF)
			}
			return sfail("ctlrevert|failed-replica-still-in-service", detail, props...)
		}
	}
	if cp := st.C.VerifState().Checkpoint; cp != "" {
		x.cpCutByRevert = cp // (only consulted if that snapshot is indeed missing from a chain)
	}
	if len(F) > 0 {
		x.Labels["ctlrevert:partial-failure"]++
	}
	// the model: the volume is the snapshot's image; later snapshots are cut off
	x.Live = x.snapImg[name].Clone()
	for _, later := range x.snaps[k+1:] {
		delete(x.snapImg, later)
	}
	x.snaps = x.snaps[:k+1]
	size := x.Live.size()
	buf := make([]byte, size)
	for j, nd := range st.Nodes {
		if x.Mode[j] != types.RW {
			continue
		}
		if nd.S.Replica() == nil {
			return sfail("ctlrevert|replica-closed", fmt.Sprintf("n%d is RW but not open after the revert", j), "C06")
		}
		if _, err := nd.S.ReadAt(buf, 0); err != nil {
			return sfail("ctlrevert|replica-unreadable", fmt.Sprintf("n%d: %v", j, err), "C06")
		}
		if d := x.Live.Diff(buf, 0); d != "" && !x.subBlockHit(j, buf, 0) {
			return sfail("ctlrevert|replica-image-differs", fmt.Sprintf("after reverting the volume to %s, n%d reads: %s", name, j, d), "C06")
		}
		ch, _ := nd.S.Replica().Chain()
		if len(ch) < 2 || ch[1] != snapDisk(name) {
			return sfail("ctlrevert|chain", fmt.Sprintf("after reverting to %s the chain of n%d is %v", name, j, ch), "C06", "C12")
		}
	}
	if n, err := st.C.ReadAt(buf, 0); err != nil || int64(n) != size {
		return sfail("ctlrevert|volume-unreadable", fmt.Sprintf("read through the controller after the revert: n=%d err=%v", n, err), "C06", "C04")
	} else if d := x.Live.Diff(buf, 0); d != "" {
		hit := false
		for j := range st.Nodes {
			if x.Mode[j] == types.RW && x.subBlockHit(j, buf, 0) {
				hit = true
			}
		}
		if !hit {
			return sfail("ctlrevert|volume-image-differs", fmt.Sprintf("after reverting the volume to %s it reads: %s", name, d), "C06")
		}
	}
	return nil
}

// ---- C16: resize through the controller -----------------------------------------

// doCtlResize: op.N = new size in blocks, op.Name = volume name given ("" = the right one), op.Str = unparsable size string.
func (x *SExec) doCtlResize(i int, op SOp) *Fail {
	st := x.St
	old := x.Live.size()
	name := "vol"
	if op.Name != "" {
		name = op.Name
	}
	arg := strconv.FormatInt(op.N*Blk, 10)
	switch op.Reps {
	case 3:
		arg = fmt.Sprintf("%dk", op.N*Blk/1024)
	case 4:
		arg = fmt.Sprintf("%dkb", op.N*Blk/1024)
	case 5:
		arg = fmt.Sprintf("%dKiB", op.N*Blk/1024)
	}
	if op.Reps >= 3 {
		x.Labels["ctlresize:size-with-unit"]++
	}
	if op.Str != "" {
		arg = op.Str
	}
	if x.listed() == 0 {
		return nil
	}
	sizeBefore := map[int]int64{}
	for j, nd := range st.Nodes {
		if r := nd.S.Replica(); r != nil {
			sizeBefore[j] = r.Info().Size
		}
	}
	ctlBefore := st.C.VerifState().Size
	err := st.C.Resize(name, arg)
	x.tracef("controller resize name=%s size=%s (old %d) -> %v", name, arg, old, err)
	valid := op.Name == "" && op.Str == "" && op.N*Blk > old
	if !valid {
		x.Labels["ctlresize:refused"]++
		if err == nil {
			why := "unparsable size"
			switch {
			case op.Name != "":
				why = "wrong volume name"
			case op.Str == "" && op.N*Blk < old:
				why = "shrink"
			case op.Str == "" && op.N*Blk == old:
				why = "same size"
			}
			return sfail("ctlresize|"+why+"|accepted", fmt.Sprintf("Controller.Resize(%s,%s) accepted (%s), old size %d", name, arg, why, old), "C16")
		}
		// a refused request changes nothing: sizes as they were before the call (a replica
		// that joined an empty volume may carry another size than the controller remembers)
		if got := st.C.VerifState().Size; got != ctlBefore {
			return sfail("ctlresize|refused-but-size-changed", fmt.Sprintf("refused resize changed the controller size %d -> %d", ctlBefore, got), "C16")
		}
		for j, nd := range st.Nodes {
			if x.Mode[j] == types.RW || x.Mode[j] == types.WO {
				if r := nd.S.Replica(); r != nil && r.Info().Size != sizeBefore[j] {
					return sfail("ctlresize|refused-but-replica-resized", fmt.Sprintf("refused resize changed n%d's size from %d to %d", j, sizeBefore[j], r.Info().Size), "C16")
				}
			}
		}
		return nil
	}
	if err != nil {
		return sfail("ctlresize|grow|refused", fmt.Sprintf("Controller.Resize(%s,%s) refused: %v", name, arg, err), "C16")
	}
	x.Labels["ctlresize:grow"]++
	newSize := op.N * Blk
	x.Live.Grow(newSize)
	if got := st.C.VerifState().Size; got != newSize {
		return sfail("ctlresize|controller-size", fmt.Sprintf("controller size %d after growing to %d", got, newSize), "C16")
	}
	for j, nd := range st.Nodes {
		if x.Mode[j] != types.RW && x.Mode[j] != types.WO {
			continue
		}
		r := nd.S.Replica()
		if r == nil || r.Info().Size != newSize {
			return sfail("ctlresize|replica-size", fmt.Sprintf("n%d (%s) does not report the new size %d", j, x.Mode[j], newSize), "C16")
		}
		vm, err := readVolMeta(nd.Dir)
		if err != nil || vm.Size != newSize {
			return sfail("ctlresize|replica-size-not-persisted", fmt.Sprintf("n%d volume.meta size %d, expected %d", j, vm.Size, newSize), "C16")
		}
	}
	// the added range reads zero and accepts a write (the controller's range check has moved)
	if !x.readOnly() {
		if f := x.doWrite(i*100+1, SOp{K: "write", Off: newSize/Sec - 8, Len: 8, Seed: 1 + i%200}); f != nil {
			return f
		}
	}
	if x.nRW() > 0 {
		return x.doRead(i*100+2, SOp{K: "read", Off: old / Sec, Len: (newSize - old) / Sec, Reps: 1})
	}
	return nil
}

func keysOf(m map[int]bool) []int {
	var k []int
	for i := range m {
		k = append(k, i)
	}
	sort.Ints(k)
	return k
}

// longDeadlineFor: an op with a DROPWAIT outcome runs with r/w deadlines of 4 s;
// the returned function restores the usual ones.
func longDeadlineFor(op SOp) func() {
	for _, o := range op.Out {
		if o == DROPWAIT {
			rpc.VerifSetTimeouts(4*time.Second, 4*time.Second, 4*time.Second, 4*time.Second, 0)
			return func() { rpc.VerifSetTimeouts(sRW, sRW, sRW, sRW, 0) }
		}
	}
	return func() {}
}

// rebuildSource: the RW replica a rebuild copies from and is verified against -
// the one the controller picks (the first RW entry of its list,
// getCurrentAndRWReplica), provided the model agrees that it is RW.
func (x *SExec) rebuildSource() int {
	for _, r := range x.St.C.VerifState().Replicas {
		if r.Mode != types.RW {
			continue
		}
		for j, nd := range x.St.Nodes {
			if nd.Addr == r.Address && x.Mode[j] == types.RW {
				return j
			}
		}
	}
	return -1
}

// doStatsRace: GET /v1/stats is parked at the point where the controller asks one
// replica for its details (after it has taken its view of the membership), a
// replica that is not the last entry of the list is removed meanwhile, and the
// answer is inspected: it names each replica once, its counter is the number of
// replicas it names, and that membership is the one before or the one after the
// removal.
func (x *SExec) doStatsRace(i int, op SOp) *Fail {
	st := x.St
	for j, m := range x.Mode {
		if m == types.ERR || (m == "" && st.Mode(j) != "") {
			return nil
		}
	}
	vs := st.C.VerifState()
	if len(vs.Replicas) < 2 {
		return nil
	}
	if err := st.EnableCtrlREST(); err != nil {
		panic(err)
	}
	ri := op.Node % (len(vs.Replicas) - 1) // not the last entry
	raddr := vs.Replicas[ri].Address
	rn, hn := -1, -1
	for j, nd := range st.Nodes {
		if nd.Addr == raddr {
			rn = j
		}
		if nd.Addr == vs.Replicas[len(vs.Replicas)-1].Address {
			hn = j
		}
	}
	if rn < 0 || hn < 0 {
		return nil
	}
	var before, after []string
	for _, r := range vs.Replicas {
		before = append(before, r.Address)
		if r.Address != raddr {
			after = append(after, r.Address)
		}
	}
	sort.Strings(before)
	sort.Strings(after)
	h := st.Nodes[hn].HoldRest("GET /v1/replicas/1", 500*time.Millisecond)
	type statsAnswer struct {
		ReplicaCounter int             `json:"ReplicaCounter"`
		Replicas       []types.Replica `json:"Replicas"`
	}
	type result struct {
		a   statsAnswer
		err error
	}
	resc := make(chan result, 1)
	go func() {
		var r result
		cl := &http.Client{Timeout: 15 * time.Second}
		resp, err := cl.Get(st.CtrlURL() + "/v1/stats")
		if err != nil {
			r.err = err
		} else {
			defer resp.Body.Close()
			r.err = json.NewDecoder(resp.Body).Decode(&r.a)
		}
		resc <- r
	}()
	parked := false
	select {
	case <-h.Arrived:
		parked = true
	case <-time.After(3 * time.Second):
	}
	err := st.C.RemoveReplica(raddr)
	x.tracef("statsrace: remove %s while GET /v1/stats is parked at n%d (parked=%v) -> %v", raddr, hn, parked, err)
	if err != nil {
		return sfail("remove|error", err.Error(), "C18")
	}
	x.detach(rn)
	r := <-resc
	if r.err != nil {
		return sfail("stats|request-failed", fmt.Sprintf("GET /v1/stats during the removal of %s: %v", raddr, r.err), "C18", "C14")
	}
	var got []string
	seen := map[string]bool{}
	for _, rp := range r.a.Replicas {
		if seen[rp.Address] {
			return sfail("stats|address-twice", fmt.Sprintf("GET /v1/stats answered while %s was being removed names %s twice: %v (counter %d)", raddr, rp.Address, r.a.Replicas, r.a.ReplicaCounter), "C18")
		}
		seen[rp.Address] = true
		got = append(got, rp.Address)
	}
	sort.Strings(got)
	if r.a.ReplicaCounter != len(got) {
		return sfail("stats|counter-vs-list", fmt.Sprintf("GET /v1/stats: ReplicaCounter=%d, %d replicas named: %v", r.a.ReplicaCounter, len(got), r.a.Replicas), "C18")
	}
	if strings.Join(got, ",") != strings.Join(before, ",") && strings.Join(got, ",") != strings.Join(after, ",") {
		return sfail("stats|membership-that-never-existed", fmt.Sprintf("GET /v1/stats names %v; before the removal of %s the list was %v, afterwards %v", got, raddr, before, after), "C18")
	}
	if parked {
		x.Labels["statsrace:parked"]++
	}
	return nil
}

// inheritSubBlock: a replica rebuilt from a source whose image is off in some blocks
// (the known sub-block finding of C07) is off in the same blocks.
func (x *SExec) inheritSubBlock(src, dst int) {
	for b := range x.subBlockWO[src] {
		if x.subBlockWO[dst] == nil {
			x.subBlockWO[dst] = map[int64]bool{}
		}
		x.subBlockWO[dst][b] = true
	}
}
