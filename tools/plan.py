"""Per-property run plans for ./check (tests, shards, case counts, budgets)."""

ENGINE_ASSUME = [
    "ext4 scratch file system with FIEMAP, O_DIRECT, punch-hole and SEEK_DATA/SEEK_HOLE (the harness refuses to run otherwise)",
    "verif-tagged hooks only expose state or shorten polling intervals; one shard per run uses the unmodified 1 s hole drainer",
    "the reference model (byte array per volume, snapshot tree, counter) is the specification of the statement",
]

HOOK_COMMITS = ["207740b", "bd99653", "1c0910e", "2a65ab3"]

NOT_APPLICABLE = {}

PLAN = {
    "C01": {
        "level": "exploration",
        "rule": ("rapid-generated op programs (write shapes by class, read, snapshot user/auto, cleaner-style removal, revert, "
                 "reopen/reload with and without preload, punching on/off, RW/WO, unmap, resize) run against the real replica.Server "
                 "and a byte-array model, full read compared after every step; non-trivial = >=1 snapshot, >=1 write after it and a "
                 "removal/reopen/reload/revert; distinct = FNV hash of the op program; TestC01Range: controller-level reads/writes on an RF 1-3 stack at offsets inside, "
                 "ending at, crossing, at and far beyond the end of the volume, negative and overflowing int64 - out-of-range requests must fail, reach no replica and detach nothing"),
        "assumptions": ENGINE_ASSUME,
        "quick": {"wall": 120, "tests": [
            {"run": "TestC01", "shards": 12, "checks": 120, "timeout": 100, "real_drainer_shards": 0},
            {"run": "TestC01", "shards": 1, "checks": 6, "timeout": 100, "real_drainer_shards": 1},
            {"run": "TestC01Range", "shards": 3, "checks": 60, "timeout": 100},
        ]},
        "thorough": {"wall": 900, "tests": [
            {"run": "TestC01", "shards": 11, "checks": 3000, "timeout": 840},
            {"run": "TestC01", "shards": 2, "checks": 60, "timeout": 840, "real_drainer_shards": 2},
            {"run": "TestC01Range", "shards": 3, "checks": 2500, "timeout": 840},
        ]},
    },

}

def _engine(pid, test, rule, quick_checks=100, thorough_checks=2500, real_quick=5, real_thorough=50):
    PLAN[pid] = {
        "level": "exploration", "rule": rule, "assumptions": ENGINE_ASSUME,
        "quick": {"wall": 120, "tests": [
            {"run": test, "shards": 14, "checks": quick_checks, "timeout": 100},
            {"run": test, "shards": 1, "checks": real_quick, "timeout": 100, "real_drainer_shards": 1},
        ]},
        "thorough": {"wall": 900, "tests": [
            {"run": test, "shards": 14, "checks": thorough_checks, "timeout": 840},
            {"run": test, "shards": 2, "checks": real_thorough, "timeout": 840, "real_drainer_shards": 2},
        ]},
    }

_engine("C06", "TestC06",
        "op programs biased to punching on (80%), user snapshots followed by automatic snapshots and multi-block overwrites, "
        "reopen with preload, UpdateLUNMap, unmap, removals; every retained user snapshot is re-read after every step by an "
        "independent on-disk chain reader and, at the end of the case, by revert on an extent-exact copy; non-trivial = punching on, "
        ">=1 user snapshot and a later write; distinct = FNV hash of the program")
_engine("C10", "TestC10",
        "op programs with RW/WO mode switches, zero-length/unaligned writes, SetRevisionCounter, snapshots, removals, reverts, reopen; "
        "GetRevisionCounter compared with the counter model after every step and after reopen; non-trivial = >=2 writes and a WO phase or a reopen")
_engine("C11", "TestC11",
        "op programs biased to long chains (user/auto snapshots, mark-removed, checkpoint at the latest snapshot or withdrawn), "
        "cleaner-style deletion (GetDeleteCandidateChain -> PrepareRemoveDisk -> sparse.FoldFile -> RemoveDiffDisk) with any candidate, "
        "direct requests against head/latest/base/unknown; candidate list checked against the statement's validity predicate, "
        "live image and retained user snapshots compared after every step; non-trivial = >=1 successful deletion")
_engine("C12", "TestC12",
        "management-heavy op programs (fresh/duplicate/over-long snapshots, remove, mark-removed, revert to valid/unknown names, "
        "resize grow/equal/shrink/garbage, set-checkpoint, wrong mode) with reopen in between; after every step Chain(), files on disk, "
        "ListDisks attributes, volume.meta compared with the model (unchanged on refusal); non-trivial = >=1 refused request and >=2 snapshots")
_engine("C16", "TestC16",
        "op programs with resize (grow by 1-32 blocks, equal, shrink, unparsable) interleaved with writes, snapshots, removals, reopen; "
        "old bytes and every retained snapshot unchanged, new range zero and writable, Info().Size, every chain file length and "
        "volume.meta size equal the new size, also after reopen; non-trivial = >=1 accepted grow after a write and a snapshot")

PLAN["C15"] = {
    "level": "exploration",
    "rule": ("(a) generated frames (all ten types and arbitrary ones, offsets/sizes over the int64 range, payload 0-256 KiB around the 8096-byte "
             "buffer boundaries) through rpc.Wire.Write -> bytes -> rpc.Wire.Read, compared field by field and byte-for-byte with an independent "
             "reference encoder/decoder; (b) the real rpc.Client on loopback TCP against a scripted peer: 1-64 concurrent read/write/sync/unmap/ping, "
             "replies in a generated permutation with generated reply types, duplicate and unknown sequence numbers injected, every call must get the "
             "reply scripted for its own request; (c) failure scripts: stall (short deadline for the stalled type only, 25 s for all others), close, "
             "half-close, bad magic, truncated frame at a generated point - pending calls fail within 9 s, later calls within 1 s, the close channel is "
             "notified; non-trivial = frames with payload beyond one buffer / negative offset / unknown type, scripts with >=2 concurrent calls"),
    "assumptions": ["deadlines are shortened through the verif hook rpc.VerifSetTimeouts; loopback TCP stands for the replica connection",
                    "the reference codec was written from the documented frame layout, not derived from rpc/wire.go"],
    "technique": "property-based testing (rapid): round-trip + differential codec, scripted-peer model of the RPC client",
    "quick": {"wall": 150, "tests": [
        {"run": "TestC15Frames", "shards": 2, "checks": 1500, "timeout": 100},
        {"run": "TestC15Matching", "shards": 4, "checks": 250, "timeout": 100},
        {"run": "TestC15Failure", "shards": 10, "checks": 12, "timeout": 120, "shrink": "30s"},
    ]},
    "thorough": {"wall": 900, "tests": [
        {"run": "TestC15Frames", "shards": 2, "checks": 40000, "timeout": 800},
        {"run": "TestC15Matching", "shards": 4, "checks": 6000, "timeout": 800},
        {"run": "TestC15Failure", "shards": 10, "checks": 200, "timeout": 800, "shrink": "60s"},
    ]},
}

STACK_ASSUME = [
    "nodes run in the harness process: real replica.Server + real replica REST router (fault middleware) + real rpc.Server over a fault-injecting DataProcessor on loopback aliases 127.x.y.z:9502/9503; the controller, remote.Factory, rpc.Client are the real ones",
    "RPC deadlines 300 ms and monitor ping 150 ms through verif hooks (product: 30 s / 2 s); the rebuild file transfer is an extent-exact copy done by the harness, every other rebuild step is the product's",
    "the membership model encodes the statements (C02-C05, C18), not the controller code; replica-side facts the model cannot know (closed?, revision counts) are read from the nodes",
]

def _stack(pid, test, rule, quick_checks, thorough_checks, shards=16, wall=150):
    PLAN[pid] = {
        "level": "exploration", "rule": rule, "assumptions": STACK_ASSUME,
        "technique": "model-based property testing (rapid) of the real controller against in-process replica nodes with scripted per-replica faults",
        "quick": {"wall": wall, "tests": [{"run": test, "shards": shards, "checks": quick_checks, "timeout": wall - 20}]},
        "thorough": {"wall": 900, "tests": [{"run": test, "shards": shards, "checks": thorough_checks, "timeout": 840}]},
    }

_stack("C02", "TestC02",
       "stack programs: RF 1-5, initial membership built through register/start/add/verify, writes/syncs/unmaps with a per-node outcome "
       "(ok / error reply / stall past the 300 ms deadline / connection drop; at most two slow faults per case), corner-biased fault sets "
       "(one, half, half+1, all), re-add and rebuild of detached nodes; oracle per call: acknowledged <=> applied (node data-path logs) by a strict "
       "majority of the replicas attached at call time, failing replicas absent from ListReplicas on return and never contacted again, at the end "
       "every in-service replica holds every acknowledged write in order and every RW replica reads back the model; non-trivial = >=1 write "
       "acknowledged despite a failing replica and >=1 refused (minority or read-only)", 30, 900)
_stack("C03", "TestC03",
       "stack programs over boot/add/rebuild/remove/ping failure/connection drop/volume snapshot with per-node REST failure/I-O with faults; after every "
       "step ReadOnly must equal #RW < RF/2+1 and RWReplicaCount the number of RW entries; write/sync/unmap probes in the read-only state must be "
       "refused without reaching any replica (<=2 per case: each costs the built-in 1 s delay); non-trivial = the volume loses and regains its quorum", 24, 900)
_stack("C04", "TestC04",
       "stack programs with many reads (1-4 per step to move the round-robin cursor), per-node read failures, a WO replica holding a partial image "
       "(joined after data was written); a successful read returns the model image, the serving node (node log) is RW in the model, failed readers are "
       "detached, no RW replica => the read fails; non-trivial = >=1 read with a WO replica attached or with fail-over", 40, 900)
_stack("C05", "TestC05",
       "stack programs (RF 3-5) in which a subset of replicas fails by error reply, stall, connection drop, ping failure or node-side disconnect at a "
       "generated point; in-flight and later operations succeed while a majority remains, the failed node is absent (I/O path: on return; monitor "
       "path: polled up to 30 s, nominal 0.15-2 s), its data-path log is frozen, it returns only through add (WO first); non-trivial = >=1 such failure", 24, 900)
_stack("C18", "TestC18",
       "the C03 program space plus duplicate adds, adds beyond RF, a second WO with lower/equal/higher revision (takeover), unknown addresses, REST "
       "set-mode RW/ERR/WO/bogus; after every step controller.VerifState(): no duplicate address, <=RF entries, backends == list with equal modes, "
       "writers = non-ERR, readers = RW, index maps injective, <=1 WO, RWReplicaCount = #RW, detached nodes' logs frozen; non-trivial = >=1 "
       "successful add and a remove or set-mode", 40, 900)

PLAN["C14"] = {
    "level": "exploration",
    "rule": ("request sequences (1-30 + 2 trailing well-formed) from the two route tables (controller REST, replica REST) with mutation classes: any method on any "
             "path, known/unknown/missing action, valid / non-base64 / unknown / over-long ids, bodies valid, valid for another action, wrongly typed, "
             "truncated, empty, non-JSON, null, array, 1 MiB; sent over HTTP to a child process holding the real controller + replicas in a generated "
             "state (no replicas / started / degraded / one WO; extra replica initial / closed / open / rebuilding); after every request: child alive, "
             "no handler panic (recording middleware), GET on both APIs answers 200, controller and every replica server lock obtainable within 10 s, "
             "unroutable / unknown-action / malformed-body requests answered >= 400; non-trivial = a malformed request followed by a well-formed one"),
    "assumptions": ["the API process is the test binary re-executed (VERIF_CHILD=apiserver) with the real routers, controller and replica servers; pprof routes are not requested",
                    "the child plays the replica process's part of setting CloneStatus=NA after an open, as app/replica.go does"],
    "technique": "grammar-based request generation (rapid) against a child process; liveness / lock / panic probes after every request",
    "quick": {"wall": 150, "tests": [{"run": "TestC14", "shards": 16, "checks": 40, "timeout": 130, "shrink": "40s"}]},
    "thorough": {"wall": 900, "tests": [{"run": "TestC14", "shards": 16, "checks": 1200, "timeout": 840, "shrink": "90s"}]},
}

PLAN["C09"] = {
    "level": "exploration",
    "rule": ("(a) scripted election: RF 1-5, RF-1..RF+1 in-process replicas whose directories hold the generated revision counter and state (closed / dirty / rebuilding); "
             "generated sequences of registration requests (repeated, from a changed address with the same uuid), scripted failures of the start signal and of the "
             "liveness probe, Start calls from any registered address and with several addresses; oracle = election model from the statement: a start signal only with "
             ">= RF/2+1 registered and none attached, a successful new pick has the maximum revision among registered, reachable, non-rebuilding replicas, only the "
             "signalled replica starts the volume, lower-revision replicas of a multi-address start are not RW and serve no read; "
             "(b) end to end: replicas take a generated faulty write history through the real controller, all stop, re-register in a generated order with the values "
             "their directories hold, the signalled replica starts a fresh controller and a full read must equal every acknowledged write; "
             "non-trivial = >=2 registrations and a successful start signal"),
    "assumptions": STACK_ASSUME + ["SignalToAdd / VerifyReplicaAlive are answered from the script (recorded) in the scripted tier; Create/Start use the real remote factory and replicas"],
    "technique": "model-based property testing (rapid) of the registration/start protocol with a scripted backend factory; end-to-end restart check against the data model",
    "quick": {"wall": 150, "tests": [
        {"run": "TestC09", "shards": 12, "checks": 80, "timeout": 130},
        {"run": "TestC09EndToEnd", "shards": 4, "checks": 25, "timeout": 120},
    ]},
    "thorough": {"wall": 900, "tests": [
        {"run": "TestC09", "shards": 10, "checks": 2500, "timeout": 840},
        {"run": "TestC09EndToEnd", "shards": 6, "checks": 500, "timeout": 840},
    ]},
}

_stack("C13", "TestC13",
       "stack programs (RF 1-3, exactly RF nodes) of 'race' steps - 1-3 writer goroutines issue numbered 512-byte stamps (writer, sequence) into their own block "
       "ranges through the controller while 1-3 volume snapshot requests arrive after generated delays - interleaved with replica loss, re-add and rebuild, "
       "sequential snapshots with per-node REST failures and promotions with per-node set-checkpoint failures; per successful snapshot: the image (independent "
       "on-disk chain reader) is byte-identical on every RW replica and is a consistent cut (per writer: contains every write acknowledged before the request "
       "began, none issued after it returned, and exactly the newest write per block up to the cut); snapshots are refused unless all RF replicas are RW; "
       "a checkpoint is held only with RF replicas RW, persisted by each and contained in each chain, equals every chain[1] right after a promotion that "
       "completes the set, is empty after a failed set-checkpoint or any departure; non-trivial = >=1 successful snapshot taken during a race", 80, 2500)
PLAN["C13"]["technique"] = "model-based property testing (rapid) with real concurrent writers and snapshot requests; consistent-cut oracle on snapshot images"

PLAN["C08"] = {
    "level": "fault_enumeration",
    "rule": ("generated pre-state (engine op program: writes, user/auto snapshots, removals, reverts, checkpoint; captured after a clean close or while open = dirty) x one operation "
             "under test (write of each shape class, snapshot fresh/duplicate, cleaner-style removal, mark-removed, revert, resize, set-checkpoint, set-rebuilding, "
             "set-clone-status, set-revision-counter, close, open); the operation runs in a victim process (test binary, main goroutine wired to the main thread) under "
             "strace: run 1 records the main thread's file-system calls between two markers, then on fresh extent-exact copies of the pre-state one run per selected call "
             "with SIGKILL injected on entry to it (= the state between two calls) and one run per (call, errno in ENOSPC/EIO) with that call failing; after a death the copy "
             "must reopen (with and without preload) to the chain/image/snapshots/counter of the state before or after (interrupted write: old or new per sector inside "
             "the range only); after a failed call: success => post-state and parsable metadata, failure => pre-state intact; trace lint: every directory update of a "
             "successful operation is followed by an fsync of the directory, metadata temp files are O_SYNC; quick samples 2-4 calls per pair, thorough enumerates all "
             "calls of each pair (exhaustive_pairs); non-trivial = a pair with at least one injected run; distinct = FNV hash of the case"),
    "assumptions": ["process death model: every completed system call persists (the kernel survives); power loss is covered only by the fsync lint",
                    "strace -e inject addresses a point as the K-th call of a name on the victim's main thread; operations are single-threaded for file-system calls (verified by the recorded trace being identical between runs)",
                    "hole punching is off in victims (asynchronous reclamation is C06's subject)"],
    "technique": "generated pre-state x operation, strace-driven enumeration of crash points and single-call failures, reopen-vs-model oracle",
    "quick": {"wall": 170, "tests": [{"run": "TestC08", "shards": 16, "checks": 30, "timeout": 150, "shrink": "30s"}]},
    "thorough": {"wall": 1500, "tests": [{"run": "TestC08", "shards": 16, "checks": 250, "timeout": 1400, "shrink": "120s"}]},
}

PLAN["C17"] = {
    "level": "exploration",
    "rule": ("generated sequences on one in-process replica node (real replica.Server, REST router, rpc server) of transitions {create, open, close, set-mode RW/WO, set-rebuilding, reload, "
             "snapshot, attach = remote.Factory.Create, detach} interleaved with probes in every reached state: read/write/sync/unmap, RemoveDiffDisk / PrepareRemoveDisk / "
             "SetRevisionCounter, and every REST action (17 + unknown ones) with a valid body; oracle from the statement: closed/initial => I/O returns an error and the directory "
             "(names, sizes, content hashes), state, chain, mode, counter are unchanged; a write is acknowledged only when open and RW (counter +1) or WO (counter unchanged), in mode INIT "
             "it is refused and the counter does not move; removal, prepare-removal and counter updates are refused outside RW without side effects; a backend can be created only "
             "against a closed replica (a second attach fails); a REST action the node's own GET /v1/replicas/1 does not advertise is answered with an error status and changes nothing; "
             "non-trivial = >=1 attach attempt and >=1 probe in a state where it must be refused"),
    "assumptions": ["one node in the harness process; the REST advertisement is read from the node itself right before each request (advertised-vs-enforced consistency)",
                    "where the engine stores the bytes of a write it refuses in mode INIT is recorded but not judged (the statement is read as 'acknowledges')"],
    "technique": "stateful property testing (rapid): transition sequences with refusal/no-side-effect oracle per state",
    "quick": {"wall": 120, "tests": [{"run": "TestC17", "shards": 16, "checks": 80, "timeout": 100}]},
    "thorough": {"wall": 900, "tests": [{"run": "TestC17", "shards": 16, "checks": 4000, "timeout": 840}]},
}

_stack("C07", "TestC07",
       "merge tier: stack programs (RF 2-3) with writes, volume snapshots (user-created) and replica loss in which a fresh, spare or stale replica is added and rebuilt; the rebuild "
       "runs the product's steps (auto snapshot on add, SetRebuilding, Reload without preload, SyncDir, UpdateLUNMap, VerifyRebuildReplica, SetRebuilding(false)) with the file transfer "
       "done by the harness oldest->newest, and 0-3 fault-free foreground writes before, after every copied file, concurrently with UpdateLUNMap (real goroutines) and after; "
       "interruptions: a snapshot not transferred, set-mode REST failure during verification; at promotion: live image of the newcomer = source = model of all acknowledged writes, "
       "chains equal, every user snapshot (and every automatic one while reclamation was never on) byte-identical on both directories, counters equal; never two WO; an interrupted "
       "rebuild leaves the replica not RW, persisted as rebuilding and serving no read; system tier (TestC07System): the real sync.Task.AddReplica with real sync-agent / ssync child "
       "processes; non-trivial = >=1 promotion with acknowledged foreground writes", 30, 900)
PLAN["C07"]["quick"]["tests"].append({"run": "TestC07System", "shards": 4, "checks": 2, "timeout": 130})
PLAN["C07"]["quick"]["tests"][0]["shards"] = 12
PLAN["C07"]["thorough"]["tests"].append({"run": "TestC07System", "shards": 6, "checks": 25, "timeout": 840})
PLAN["C07"]["thorough"]["tests"][0]["shards"] = 10
PLAN["C07"]["needs_jiva"] = True

PLAN["C19"] = {
    "level": "exploration",
    "rule": ("source volume (RF 1-2, in-process stack with real sync agents) with a generated history of writes and user snapshots; one snapshot (every position; or a name that does not exist) "
             "is cloned by the repository's own binary started as `jiva replica --type clone --cloneIP A --snapName S --frontendIP B` against a fresh in-process controller B (RF=1) whose "
             "signals and backend are the real remote factory, so startReplica's own ordering (register/start, inProgress, file copy through ssync, update clone info, reload, LUN map, "
             "completed) is what runs; optionally the clone process is killed (-9) at a generated time during the copy and restarted; observed every 25 ms: clone status over REST, the "
             "clone's mode in B, a probe read through B; oracle: status never goes back, B lists the clone RW only once the status is completed, every read through B fails before that, "
             "once RW a full read through B equals the model image of S and the clone's revision counter equals the one the source recorded for S, a clone of a missing snapshot ends in "
             "status error and is never readable; non-trivial = the clone completed or ended in error"),
    "assumptions": ["the clone replica is the real jiva binary built from /repo (with its sync agent started by the harness on a private ssync port range: the built-in one always uses 9700-9800 on all interfaces, which would collide between parallel cases)",
                    "kill points are wall-clock times, not enumerated system-call boundaries"],
    "technique": "property-based system test (rapid): generated source history and interruption, model image of the snapshot as oracle, status/mode timeline invariants",
    "needs_jiva": True,
    "quick": {"wall": 170, "tests": [{"run": "TestC19", "shards": 12, "checks": 3, "timeout": 150, "shrink": "1s"}]},
    "thorough": {"wall": 1500, "tests": [{"run": "TestC19", "shards": 12, "checks": 40, "timeout": 1400, "shrink": "60s"}]},
}

PLAN["C10"]["quick"]["tests"][0]["shards"] = 12
PLAN["C10"]["quick"]["tests"].append({"run": "TestC10Concurrent", "shards": 2, "checks": 150, "timeout": 100})
PLAN["C10"]["thorough"]["tests"][0]["shards"] = 12
PLAN["C10"]["thorough"]["tests"].append({"run": "TestC10Concurrent", "shards": 2, "checks": 6000, "timeout": 840})
PLAN["C10"]["rule"] += ("; TestC10Concurrent: 2-8 goroutines x 1-40 writes (disjoint or overlapping ranges, sub-block lengths) through Server.WriteAt, counter must move by exactly N*k in RW "
                        "and not at all in WO, also after reopen; the promotion clause (promoted replica reports the source's count, all RW replicas agree) is checked at every promotion and at the end "
                        "of every stack program (C02-C07), the crash clause in C08")

PLAN["C16"]["quick"]["tests"][0]["shards"] = 11
PLAN["C16"]["quick"]["tests"].append({"run": "TestC16Controller", "shards": 3, "checks": 60, "timeout": 100})
PLAN["C16"]["thorough"]["tests"][0]["shards"] = 11
PLAN["C16"]["thorough"]["tests"].append({"run": "TestC16Controller", "shards": 3, "checks": 2500, "timeout": 840})
PLAN["C16"]["rule"] += ("; TestC16Controller: stack programs (RF 1-3) with Controller.Resize(name,size) - grow, same size, shrink, wrong volume name, unparsable size - interleaved with writes, reads, "
                        "snapshots, replica loss and rebuild: a refused request changes neither the controller's nor any replica's size; after a grow every attached replica reports and persists "
                        "the new size, the tail of the added range accepts a write and the added range reads zero through the controller, all earlier data still reads back")

PLAN["C10"]["quick"]["tests"][0]["shards"] = 9
PLAN["C10"]["quick"]["tests"].append({"run": "TestC10Promotion", "shards": 4, "checks": 30, "timeout": 100})
PLAN["C10"]["thorough"]["tests"][0]["shards"] = 9
PLAN["C10"]["thorough"]["tests"].append({"run": "TestC10Promotion", "shards": 4, "checks": 900, "timeout": 840})
PLAN["C10"]["rule"] += "; TestC10Promotion: stack programs with faulty writes and rebuilds, promoted replica's counter = source's at every promotion, all RW replicas report the same count at the end"

PLAN["C07"]["quick"]["tests"][0]["shards"] = 8
PLAN["C07"]["quick"]["tests"].append({"run": "TestC07Window", "shards": 4, "checks": 12, "timeout": 130, "tags": ("verif", "debug"), "env": {"VERIF_LUNMAP_WINDOW": 1}})
PLAN["C07"]["quick"]["tests"][1]["checks"] = 4
PLAN["C07"]["quick"]["tests"][1]["shards"] = 5
PLAN["C07"]["thorough"]["tests"][0]["shards"] = 7
PLAN["C07"]["thorough"]["tests"].append({"run": "TestC07Window", "shards": 3, "checks": 150, "timeout": 840, "tags": ("verif", "debug"), "env": {"VERIF_LUNMAP_WINDOW": 1}})
PLAN["C07"]["rule"] += ("; TestC07Window: the merge-tier programs against a build of the repository with its own 'debug' tag, whose inject.AddUpdateLUNMapTimeout gives a rendezvous between "
                        "UpdateLUNMap's preload and its merge - the foreground writes are issued exactly inside that window (1 s per rebuild)")

PLAN["C15"]["quick"]["tests"].append({"run": "TestC15Decode", "shards": 1, "checks": 1500, "timeout": 100})
PLAN["C15"]["quick"]["tests"][0]["shards"] = 1
PLAN["C15"]["thorough"]["tests"].append({"run": "TestC15Decode", "shards": 1, "checks": 60000, "timeout": 800})
PLAN["C15"]["thorough"]["tests"][0]["shards"] = 1
PLAN["C15"]["rule"] += ("; TestC15Decode: byte streams of 1-4 reference-encoded frames with one generated mutation (truncation, byte flip, junk before/behind, bad magic) decoded by Wire.Read and by "
                        "the reference decoder: same frames or rejection, wrong magic never accepted (a native go-fuzz entry FuzzC15WireRead exists for manual campaigns; it is not part of the tiers because "
                        "the pre-built test binary carries no coverage instrumentation)")

PLAN["C07"]["quick"]["tests"].append({"run": "TestC07Kill", "shards": 3, "checks": 1, "timeout": 140, "shrink": "1s"})
PLAN["C07"]["thorough"]["tests"].append({"run": "TestC07Kill", "shards": 6, "checks": 12, "timeout": 860, "shrink": "1s"})
PLAN["C07"]["rule"] += ("; kill tier (TestC07Kill): the rebuilding replica is the repository's own binary (`jiva replica --frontendIP <controller>`, its sync agent beside it) started on an empty "
                        "directory or on a stale copy of the departed replica's, so AutoConfigureReplica, checkAndResetFailedRebuild, sync.Task.AddReplica, the ssync transfers and reloadAndVerify run as "
                        "shipped; the process is killed (-9) at generated points (listed WO / rebuilding flag persisted / first file arrived / promoted, plus a delay) and restarted on the same directory "
                        "(also whenever it exits by itself, as its pod would be), with foreground writes through the controller all along; every read through the controller must return the acknowledged "
                        "data and must have been served by a healthy replica while the child is not RW, never two WO entries, and at every promotion chain, revision counter, live image and user "
                        "snapshots of the child's directory equal the source's and the model")
PLAN["C08"]["rule"] += ("; in the failed-call runs the victim may perform a follow-up on the same replica object after the operation under test (close, a rewrite of volume.meta, or both; the injected "
                        "fault is transient): whatever a failed operation left in memory must not reach the disk - the directory is compared after the follow-up")
PLAN["C15"]["rule"] += ("; in half of the stall scripts the peer falls silent after a generated number of replies, so that other requests (own deadlines 25 s away) are pending when the stalled one times out")
PLAN["C19"]["rule"] += ("; variant: the clone process runs with MAX_CHAIN_LENGTH=2, so that create, open and the file copy work but its reload onto a copied chain of more than one snapshot fails: it must end in "
                        "status error and is never readable")

PLAN["C11"]["needs_jiva"] = True
PLAN["C11"]["quick"]["tests"][0]["shards"] = 11
PLAN["C11"]["quick"]["tests"].append({"run": "TestC11Cleaner", "shards": 10, "checks": 1, "timeout": 110, "shrink": "1s"})
PLAN["C11"]["quick"]["wall"] = 150
PLAN["C11"]["thorough"]["tests"][0]["shards"] = 11
PLAN["C11"]["thorough"]["tests"].append({"run": "TestC11Cleaner", "shards": 8, "checks": 10, "timeout": 860, "shrink": "1s"})
PLAN["C11"]["rule"] += ("; TestC11Cleaner: the product's own deletion path - user delete requests (Controller.DeleteSnapshot: mark on every replica) and sync.Task.InternalSnapshotCleaner running "
                        "against every RW replica of a real controller (RF 1-3, chains with user and automatic snapshots from rebuild cycles, checkpoint recorded by the promotion that completes the set) "
                        "for one 60 s tick with foreground reads and writes, its folds done by real sync-agent / sfold child processes, in half of the cases with the agents stopped (every fold fails): "
                        "whatever it removed was a valid candidate by the statement (never without a checkpoint, never after a failed fold), the live image and every retained user snapshot are unchanged")

# tests whose cases take from ten seconds to a minute: the first failing case is reported as it is (no re-runs for shrinking)
for _pid in PLAN:
    for _tier in ("quick", "thorough"):
        for _t in PLAN[_pid][_tier]["tests"]:
            if _t["run"] in ("TestC07System", "TestC07Kill", "TestC11Cleaner", "TestC19"):
                _t.setdefault("env", {})["VERIF_NOSHRINK"] = 1

PLAN["C06"]["quick"]["tests"][0]["shards"] = 11
PLAN["C06"]["quick"]["tests"].append({"run": "TestC06Volume", "shards": 4, "checks": 40, "timeout": 100})
PLAN["C06"]["thorough"]["tests"][0]["shards"] = 10
PLAN["C06"]["thorough"]["tests"].append({"run": "TestC06Volume", "shards": 4, "checks": 1500, "timeout": 840})
PLAN["C06"]["rule"] += ("; TestC06Volume: stack programs (RF 1-3) with writes, volume snapshots, Controller.Revert to any snapshot still in the live chain (with per-replica failures of the revert request), "
                        "delete requests, replica loss and rebuild: a revert is accepted only with an RW replica and no rebuilding one, afterwards the volume and every RW replica read back exactly the image "
                        "the snapshot captured, the chain continues from that snapshot, replicas that failed the request are marked failed; the same step runs in the C03, C13 and C18 programs (status, checkpoint, bookkeeping)")

PLAN["C13"]["quick"]["tests"][0]["shards"] = 12
PLAN["C13"]["quick"]["tests"].append({"run": "TestC13Revert", "shards": 4, "checks": 40, "timeout": 130})
PLAN["C13"]["thorough"]["tests"][0]["shards"] = 12
PLAN["C13"]["thorough"]["tests"].append({"run": "TestC13Revert", "shards": 4, "checks": 1500, "timeout": 840})
PLAN["C13"]["rule"] += ("; 'snaprace' steps: a snapshot request issued while a write stalled by one replica holds the controller lock and ends with that replica detached - accepted => the snapshot exists on all RF "
                        "replicas, refused => on none; TestC13Revert: programs without racing writers but with Controller.Revert, rebuilds and departures - the checkpoint clauses hold across volume reverts")

PLAN["C06"]["quick"]["tests"][0]["shards"] = 8
PLAN["C06"]["quick"]["tests"].append({"run": "TestC06Deletion", "shards": 3, "checks": 100, "timeout": 100})
PLAN["C06"]["thorough"]["tests"][0]["shards"] = 8
PLAN["C06"]["thorough"]["tests"].append({"run": "TestC06Deletion", "shards": 3, "checks": 2500, "timeout": 840})
PLAN["C06"]["rule"] += "; TestC06Deletion: the engine oracle over deletion-heavy programs (delete requests for user snapshots, checkpoints, cleaner-style removal of any candidate the product offers)"

PLAN["C18"]["quick"]["tests"][0]["shards"] = 13
PLAN["C18"]["quick"]["tests"].append({"run": "TestC18Bootstrap", "shards": 3, "checks": 60, "timeout": 130})
PLAN["C18"]["thorough"]["tests"][0]["shards"] = 13
PLAN["C18"]["thorough"]["tests"].append({"run": "TestC18Bootstrap", "shards": 3, "checks": 1500, "timeout": 840})
PLAN["C18"]["rule"] += ("; TestC18Bootstrap: the scripted bootstrap programs of C09 (registrations, failed signals, single- and multi-address starts that succeed or fail half-way, the volume going down and being "
                        "bootstrapped again) with the list/backends/RW-count/read-only agreement checked after every step")

# native (coverage-guided) fuzzing in the thorough tier: go test -c -fuzz builds the instrumented binary
PLAN["C01"]["thorough"]["tests"].append({"run": "FuzzC01Ops", "fuzz": "FuzzC01Ops", "shards": 1, "fuzztime": "150s", "workers": 8, "timeout": 400})
PLAN["C06"]["thorough"]["tests"].append({"run": "FuzzC06Ops", "fuzz": "FuzzC06Ops", "shards": 1, "fuzztime": "150s", "workers": 8, "timeout": 400})
PLAN["C12"]["thorough"]["tests"].append({"run": "FuzzC12Ops", "fuzz": "FuzzC12Ops", "shards": 1, "fuzztime": "150s", "workers": 8, "timeout": 400})
PLAN["C15"]["thorough"]["tests"].append({"run": "FuzzC15WireRead", "fuzz": "FuzzC15WireRead", "shards": 1, "fuzztime": "90s", "workers": 8, "timeout": 300})
for _pid, _t in (("C01", "FuzzC01Ops"), ("C06", "FuzzC06Ops"), ("C12", "FuzzC12Ops")):
    PLAN[_pid]["rule"] += ("; thorough tier: native coverage-guided fuzzing (%s, 150 s, 8 workers) of the same executor - bytes decode into an op program, every oracle of the engine family runs inside the target" % _t)
PLAN["C15"]["rule"] = PLAN["C15"]["rule"].replace("(a native go-fuzz entry FuzzC15WireRead exists for manual campaigns; it is not part of the tiers because the pre-built test binary carries no coverage instrumentation)",
                                                  "(thorough tier: FuzzC15WireRead, native coverage-guided fuzzing of the decode differential, 90 s)")

PLAN["C04"]["quick"]["tests"][0]["shards"] = 13
PLAN["C04"]["quick"]["tests"].append({"run": "TestC04Bootstrap", "shards": 3, "checks": 60, "timeout": 130})
PLAN["C04"]["thorough"]["tests"][0]["shards"] = 13
PLAN["C04"]["thorough"]["tests"].append({"run": "TestC04Bootstrap", "shards": 3, "checks": 1500, "timeout": 840})
PLAN["C04"]["rule"] += "; TestC04Bootstrap: the scripted bootstrap programs of C09 - after a single- or multi-address start only replicas holding the highest revision count are RW, and only they serve the reads that follow"

PLAN["C01"]["quick"]["tests"][0]["shards"] = 10
PLAN["C01"]["quick"]["tests"].append({"run": "TestC01Sparse", "shards": 2, "checks": 80, "timeout": 100})
PLAN["C01"]["thorough"]["tests"][0]["shards"] = 9
PLAN["C01"]["thorough"]["tests"].append({"run": "TestC01Sparse", "shards": 2, "checks": 600, "timeout": 840})
PLAN["C01"]["rule"] += ("; TestC01Sparse: volumes of 1-8 GiB (sparse files, sparse model) with writes around the GiB, 2^31 and 2^32 byte marks and at the very end, and 'comb' writes that give one file "
                        "thousands of separate extents (more than one FIEMAP call returns), snapshots, reclamation on/off, reload, close/open with and without preload: every block ever written and its neighbours read back")

PLAN["C06"]["needs_jiva"] = True
PLAN["C06"]["quick"]["wall"] = 150
PLAN["C06"]["quick"]["tests"].append({"run": "TestC06Cleaner", "shards": 8, "checks": 1, "timeout": 110, "shrink": "1s", "env": {"VERIF_NOSHRINK": 1}})
PLAN["C06"]["thorough"]["tests"].append({"run": "TestC06Cleaner", "shards": 4, "checks": 10, "timeout": 860, "shrink": "1s", "env": {"VERIF_NOSHRINK": 1}})
PLAN["C06"]["rule"] += "; TestC06Cleaner: the product's cleaner loop (see C11) with and without working sync agents - every retained user snapshot keeps its image"

PLAN["C10"]["quick"]["tests"][0]["shards"] = 7
PLAN["C10"]["quick"]["tests"].append({"run": "TestC10Crash", "shards": 4, "checks": 30, "timeout": 100, "shrink": "20s"})
PLAN["C10"]["thorough"]["tests"][0]["shards"] = 7
PLAN["C10"]["thorough"]["tests"].append({"run": "TestC10Crash", "shards": 4, "checks": 400, "timeout": 840, "shrink": "60s"})
PLAN["C10"]["rule"] += ("; TestC10Crash: the strace-driven crash / failed-call enumeration of C08 over open, write, set-revision-counter, revert and close (plain opens of existing files are fault points as well): "
                        "after a process death or a failed call the reopened directory's counter lies between the value before and the value after the operation")

PLAN["C17"]["quick"]["tests"][0]["shards"] = 12
PLAN["C17"]["quick"]["tests"].append({"run": "TestC17Faults", "shards": 4, "checks": 25, "timeout": 100, "shrink": "20s"})
PLAN["C17"]["thorough"]["tests"][0]["shards"] = 12
PLAN["C17"]["thorough"]["tests"].append({"run": "TestC17Faults", "shards": 4, "checks": 300, "timeout": 840, "shrink": "60s"})
PLAN["C17"]["rule"] += ("; TestC17Faults: set-rebuilding (on/off) in a victim process with one file-system call failing (strace, as in C08) followed by a normal close: "
                        "a request that reported failure leaves the persisted rebuilding flag - which decides the replica's state and its accepted actions after a restart - as it was")
PLAN["C08"]["rule"] += "; the rebuilding flag volume.meta persists is part of the compared state; plain opens of existing files are fault points (EIO)"

PLAN["C02"]["quick"]["tests"][0]["shards"] = 12
PLAN["C02"]["quick"]["tests"].append({"run": "TestC02Restart", "shards": 4, "checks": 40, "timeout": 130})
PLAN["C02"]["thorough"]["tests"][0]["shards"] = 12
PLAN["C02"]["thorough"]["tests"].append({"run": "TestC02Restart", "shards": 4, "checks": 700, "timeout": 840})
PLAN["C02"]["rule"] += ("; a third of the injected failures are 'diskerr': the replica's own write to its head file fails (its descriptor is swapped for a read-only one during the call), so the failure "
                        "happens inside Replica.WriteAt; TestC02Restart: after such a history every replica stops (cleanly or abandoned), the controller restarts, replicas register in a generated order "
                        "and the restarted volume must serve every acknowledged write")
HOOK_COMMITS.append("346214a")

PLAN["C03"]["quick"]["tests"][0]["shards"] = 13
PLAN["C03"]["quick"]["tests"].append({"run": "TestC03Bootstrap", "shards": 3, "checks": 60, "timeout": 130})
PLAN["C03"]["thorough"]["tests"][0]["shards"] = 13
PLAN["C03"]["thorough"]["tests"].append({"run": "TestC03Bootstrap", "shards": 3, "checks": 1500, "timeout": 840})
PLAN["C03"]["rule"] += ("; TestC03Bootstrap: the scripted bootstrap programs of C09 (registrations through the REST API or directly, revision counts up to 2^62, single- and multi-address starts) - "
                        "the volume is never writable while fewer than floor(RF/2)+1 attached replicas hold the highest revision count, and ReadOnly/RWReplicaCount follow every step")

PLAN["C11"]["quick"]["tests"][0]["shards"] = 8
PLAN["C11"]["quick"]["tests"].append({"run": "TestC11Faults", "shards": 3, "checks": 12, "timeout": 110, "shrink": "20s"})
PLAN["C11"]["thorough"]["tests"][0]["shards"] = 8
PLAN["C11"]["thorough"]["tests"].append({"run": "TestC11Faults", "shards": 3, "checks": 200, "timeout": 840, "shrink": "60s"})
PLAN["C11"]["rule"] += ("; TestC11Faults: a removal in a victim process during which one file-system call fails (strace, as in C08); when the replica is still running afterwards it removes the child of that "
                        "snapshot as well (the cleaner's next candidate) and closes: the reopened directory serves the live image and every other retained user snapshot unchanged")

PLAN["C05"]["quick"]["tests"][0]["shards"] = max(1, PLAN["C05"]["quick"]["tests"][0]["shards"] - 4)
PLAN["C05"]["quick"]["tests"].append({"run": "TestC05Restart", "shards": 4, "checks": 40, "timeout": 130})
PLAN["C05"]["thorough"]["tests"][0]["shards"] = max(1, PLAN["C05"]["thorough"]["tests"][0]["shards"] - 3)
PLAN["C05"]["thorough"]["tests"].append({"run": "TestC05Restart", "shards": 3, "checks": 700, "timeout": 840})
PLAN["C05"]["rule"] += ("; TestC05Restart: faulty write histories (a third of the failures are the replica's own disk failing) followed by a stop of every replica and a restart of the volume with the replicas "
                        "registering in a generated order: every acknowledged write that a majority of RF held is served again - a replica detached for failing a write does not come back as an up-to-date copy")

# the scripted bootstrap cases cost 0.6-0.9 s each (registration through REST, real liveness probes):
# bound the thorough tier by a case count that fits its time guard
for _pid, _t in (("C04", "TestC04Bootstrap"), ("C18", "TestC18Bootstrap"), ("C03", "TestC03Bootstrap"), ("C09", "TestC09")):
    for _x in PLAN[_pid]["thorough"]["tests"]:
        if _x["run"] == _t:
            _x["checks"] = 700

PLAN["C15"]["quick"]["tests"][2]["shards"] = 8
PLAN["C15"]["quick"]["tests"].append({"run": "TestC15Detach", "shards": 2, "checks": 25, "timeout": 120, "env": {"VERIF_NOSHRINK": 1}})
PLAN["C15"]["thorough"]["tests"].append({"run": "TestC15Detach", "shards": 2, "checks": 500, "timeout": 840, "env": {"VERIF_NOSHRINK": 1}})
PLAN["C15"]["rule"] += ("; TestC15Detach: stack programs (real controller, RF 2-3) in which data connections are closed by the replica side while idle or with a request in flight, "
                        "requests stall beyond or complete after their deadline and pings fail: the replica is detached (within 30 s at the latest) and the request in flight ends")

PLAN["C08"]["quick"]["tests"].append({"run": "TestC08Extents", "shards": 2, "checks": 3, "timeout": 110, "shrink": "5s"})
PLAN["C08"]["thorough"]["tests"].append({"run": "TestC08Extents", "shards": 2, "checks": 60, "timeout": 840, "shrink": "30s"})
PLAN["C08"]["rule"] += ("; TestC08Extents: the same enumeration over pre-states whose files consist of 1030-1140 separate extents (more than one FIEMAP batch), victim and reopening inspector with "
                        "space reclamation on")

# TestC18's programs grew (statsrace, addlate, loneboot): fewer of them per shard in the quick tier
for _x in PLAN["C18"]["quick"]["tests"]:
    if _x["run"] == "TestC18":
        _x["checks"] = 30

# ---- rule texts: what the third session added to the generators and oracles ------------------------------
_OUT = ("; per-replica outcomes of a data-path call are ok / error reply / diskerr (the replica's own pwrite or fsync fails) / stall beyond the deadline / drop (connection closed with the request in flight) / "
        "dropwait (the same with 4 s deadlines, so that the rpc client ends the in-flight request itself) / slow (applied after 1.6 deadlines, when the controller has given up); a call that ran against a broken "
        "disk counts as not applied whatever the replica answered")
for _pid in ("C02", "C04", "C05"):
    PLAN[_pid]["rule"] += _OUT
PLAN["C03"]["rule"] += ("; sequences 'loneboot' (a detached replica comes back alone), 'revertfail' (a volume revert failing on one replica at the quorum edge), ghost registrations (a start counted a replica "
                        "that was attached and detached since it registered) and 'failed replica still attached' carry C03 when the volume stays writable below its quorum of up-to-date replicas")
PLAN["C04"]["rule"] += "; 'addwrite' (a write while the joining replica's snapshot request is parked), 'loneboot' with the ghost-registration oracle (stale data served by a replica elected without a majority)"
PLAN["C05"]["rule"] += "; 'loneboot' (a detached replica must not come back in service without a rebuild)"
PLAN["C06"]["rule"] += ("; a third of the volume snapshots have names that look like file names (v7.img, volume-snap-v7, X.img next to X); after every step every RW replica's copy of every volume snapshot is "
                        "compared with the image of the moment it was taken; engine programs revert to snapshots that an earlier revert cut out of the live chain ('orphanseq') and run the 'delpunch' sequence")
PLAN["C07"]["rule"] += ("; 'overlap' profile of the system tier (two overlapping absences), 'staleboot' (the volume restarts on an older replica, a newer one rejoins and its revision count has to come down), "
                        "the rebuild source is the controller's own choice")
PLAN["C08"]["rule"] += ("; a third of the write/snapshot/revert/open/close/remove cases run victim and reopening inspector with space reclamation on; 'removenext' follow-up (after a failed removal the victim "
                        "removes the child as well, dumps what it serves and closes)")
PLAN["C09"]["rule"] += "; half of the scripted cases register through the product's controller client and POST /v1/register; revision counts are drawn around 2^31, 2^32, 3e9, 2^40 and 2^62 as well as 1..12"
PLAN["C10"]["rule"] += ("; all RW replicas report the same revision count at every quiescent point of every stack program; 'verifyrace' (a write while the controller verifies a rebuild), 'slow' outcomes, "
                        "'staleboot'; TestC10Concurrent with readers of the count (it never goes back)")
PLAN["C12"]["rule"] += "; 'orphanseq' (reverts to snapshots outside the live chain, also after a grow) and 'reuseseq' (removal of a snapshot whose name was used before, within one process life)"
PLAN["C13"]["rule"] += ("; every replica's volume.meta is read when VerifyRebuildReplica returns (the recorded checkpoint must be on disk then); after every step every RW replica's copy of every volume snapshot is "
                        "compared with the image of the moment it was taken; UNMAP in TestC13Revert")
PLAN["C14"]["rule"] += "; the regression inputs under regress/C14 are replayed by the first shard of every run"
PLAN["C16"]["rule"] += "; half of the grows are spelled with a unit (k, kb, KiB); engine programs revert to a snapshot that was outside the live chain during a grow"
PLAN["C18"]["rule"] += ("; 'statsrace' (GET /v1/stats parked while a replica is removed: each replica named once, counter = names, a membership that existed), 'addlate' (a slow add overtaken by another add and "
                        "promotion), 'loneboot', RegAll bring-up")
PLAN["C19"]["rule"] += "; the source's snapshots are called s0.., base/baseimg/.., s0.img.. or volume-snap-s0.."
