package harness

import (
	"bytes"
	"encoding/binary"
	"fmt"
	"io"
	"net"
	"os"
	"sort"
	"strings"
	"sync"
	"sync/atomic"
	"testing"
	"time"

	"github.com/openebs/jiva/rpc"
	"pgregory.net/rapid"
)

// ---------------------------------------------------------------------------
// reference codec, written from the documented frame layout:
// magic u16 | seq u32 | type u32 | offset i64 | size i64 | length u32 | payload
// all little endian.

type refFrame struct {
	Magic  uint16
	Seq    uint32
	Type   uint32
	Offset int64
	Size   int64
	Data   []byte
}

func refEncode(f refFrame) []byte {
	b := make([]byte, 30+len(f.Data))
	binary.LittleEndian.PutUint16(b[0:], f.Magic)
	binary.LittleEndian.PutUint32(b[2:], f.Seq)
	binary.LittleEndian.PutUint32(b[6:], f.Type)
	binary.LittleEndian.PutUint64(b[10:], uint64(f.Offset))
	binary.LittleEndian.PutUint64(b[18:], uint64(f.Size))
	binary.LittleEndian.PutUint32(b[26:], uint32(len(f.Data)))
	copy(b[30:], f.Data)
	return b
}

func refDecode(r io.Reader) (refFrame, error) {
	var f refFrame
	h := make([]byte, 30)
	if _, err := io.ReadFull(r, h); err != nil {
		return f, err
	}
	f.Magic = binary.LittleEndian.Uint16(h[0:])
	f.Seq = binary.LittleEndian.Uint32(h[2:])
	f.Type = binary.LittleEndian.Uint32(h[6:])
	f.Offset = int64(binary.LittleEndian.Uint64(h[10:]))
	f.Size = int64(binary.LittleEndian.Uint64(h[18:]))
	n := binary.LittleEndian.Uint32(h[26:])
	if n > 0 {
		f.Data = make([]byte, n)
		if _, err := io.ReadFull(r, f.Data); err != nil {
			return f, err
		}
	}
	return f, nil
}

// bufConn is a net.Conn over an in-memory buffer (for Wire round trips).
type bufConn struct{ bytes.Buffer }

func (*bufConn) Close() error                       { return nil }
func (*bufConn) LocalAddr() net.Addr                { return &net.TCPAddr{} }
func (*bufConn) RemoteAddr() net.Addr               { return &net.TCPAddr{} }
func (*bufConn) SetDeadline(t time.Time) error      { return nil }
func (*bufConn) SetReadDeadline(t time.Time) error  { return nil }
func (*bufConn) SetWriteDeadline(t time.Time) error { return nil }

type frameCase struct {
	Seq    uint32 `json:"seq"`
	Type   uint32 `json:"type"`
	Offset int64  `json:"offset"`
	Size   int64  `json:"size"`
	Len    int    `json:"len"`
	Fill   int    `json:"fill"`
}

func genFrame(t *rapid.T) frameCase {
	typ := rapid.OneOf(rapid.Uint32Range(0, 9), rapid.Uint32()).Draw(t, "type")
	off := rapid.OneOf(rapid.Int64(), rapid.Int64Range(-4096, 1<<40), rapid.SampledFrom([]int64{0, -1, 1<<63 - 1, -1 << 63, 4096, 512})).Draw(t, "offset")
	size := rapid.OneOf(rapid.Int64(), rapid.Int64Range(0, 1<<20), rapid.SampledFrom([]int64{0, -1, 1<<63 - 1, -1 << 63})).Draw(t, "size")
	ln := rapid.OneOf(rapid.IntRange(0, 64), rapid.IntRange(0, 9000), rapid.IntRange(0, 256*1024),
		rapid.SampledFrom([]int{0, 1, 8095, 8096, 8097, 8066, 8067, 16192, 65536, 262144})).Draw(t, "len")
	return frameCase{Seq: rapid.Uint32().Draw(t, "seq"), Type: typ, Offset: off, Size: size, Len: ln, Fill: rapid.IntRange(0, 255).Draw(t, "fill")}
}

func frameData(fc frameCase) []byte {
	if fc.Len == 0 {
		return nil
	}
	d := make([]byte, fc.Len)
	for i := range d {
		d[i] = byte(fc.Fill + i*7 + i/251)
	}
	return d
}

func checkFrameRoundTrip(fcs []frameCase) *Fail {
	conn := &bufConn{}
	w := rpc.NewWire(conn)
	var want bytes.Buffer
	for _, fc := range fcs {
		data := frameData(fc)
		msg := &rpc.Message{MagicVersion: rpc.MagicVersion, Seq: fc.Seq, Type: fc.Type, Offset: fc.Offset, Size: fc.Size, Data: data}
		if err := w.Write(msg); err != nil {
			return fail("wire|write|error", err.Error(), "C15")
		}
		want.Write(refEncode(refFrame{Magic: rpc.MagicVersion, Seq: fc.Seq, Type: fc.Type, Offset: fc.Offset, Size: fc.Size, Data: data}))
	}
	got := append([]byte{}, conn.Bytes()...)
	if !bytes.Equal(got, want.Bytes()) {
		i := 0
		for i < len(got) && i < want.Len() && got[i] == want.Bytes()[i] {
			i++
		}
		return fail("wire|encode|differs-from-reference", fmt.Sprintf("encoded stream differs from the reference encoder at byte %d (got %d bytes, want %d)", i, len(got), want.Len()), "C15")
	}
	// reference decoder accepts the product's output
	rd := bytes.NewReader(got)
	for i, fc := range fcs {
		f, err := refDecode(rd)
		if err != nil {
			return fail("wire|refdecode|error", fmt.Sprintf("frame %d: %v", i, err), "C15")
		}
		if f.Seq != fc.Seq || f.Type != fc.Type || f.Offset != fc.Offset || f.Size != fc.Size || !bytes.Equal(f.Data, frameData(fc)) {
			return fail("wire|refdecode|mismatch", fmt.Sprintf("frame %d decoded by reference: %+v want %+v", i, f, fc), "C15")
		}
	}
	// product decoder round trip
	for i, fc := range fcs {
		m, err := w.Read()
		if err != nil {
			return fail("wire|read|error", fmt.Sprintf("frame %d: %v", i, err), "C15")
		}
		if m.MagicVersion != rpc.MagicVersion || m.Seq != fc.Seq || m.Type != fc.Type || m.Offset != fc.Offset || m.Size != fc.Size || !bytes.Equal(m.Data, frameData(fc)) {
			return fail("wire|roundtrip|mismatch", fmt.Sprintf("frame %d: got seq=%d type=%d off=%d size=%d len=%d want %+v", i, m.Seq, m.Type, m.Offset, m.Size, len(m.Data), fc), "C15")
		}
	}
	return nil
}

// TestC15Frames — frames survive encoding and decoding unchanged and agree
// with an independent reference codec.
func TestC15Frames(t *testing.T) {
	rec := NewRecorder("C15", "TestC15Frames")
	defer rec.Flush(t)
	run := func(fcs []frameCase, fatalf func(string, ...interface{})) {
		nt := false
		for _, fc := range fcs {
			if fc.Len > 8096 || fc.Offset < 0 || fc.Type > 9 {
				nt = true
			}
		}
		rec.Case(fcs, nt, fmt.Sprintf("frames:%d", minInt(len(fcs), 4)))
		if f := checkFrameRoundTrip(fcs); f != nil {
			if rec.Fail("C15", "C15|"+f.Sig, f.Detail, fcs) {
				return
			}
			fatalf("VIOLATION C15 %s: %s", f.Sig, f.Detail)
		}
	}
	var rp []frameCase
	if isReplay, err := LoadReplay(&rp); isReplay {
		if err != nil {
			t.Skip("replay file is for another C15 test")
		}
		run(rp, t.Fatalf)
		return
	}
	checkBudget(t, func(rt *rapid.T) {
		fcs := rapid.SliceOfN(rapid.Custom(genFrame), 1, 4).Draw(rt, "frames")
		run(fcs, rt.Fatalf)
	})
}

func minInt(a, b int) int {
	if a < b {
		return a
	}
	return b
}

// ---------------------------------------------------------------------------
// matching: real rpc.Client against a scripted peer

type callSpec struct {
	Kind  string `json:"kind"` // read write sync unmap ping
	Block int    `json:"block"`
	Len   int    `json:"len"`   // bytes
	Reply string `json:"reply"` // response error eof
	Pos   int    `json:"pos"`   // sort key for reply order
	Dup   bool   `json:"dup"`   // reply sent twice
	Stall bool   `json:"stall"` // never answered (failure scripts)
	Late  bool   `json:"late"`  // issued after the failure was observed
}

type peerScript struct {
	Calls   []callSpec `json:"calls"`
	Bogus   []int      `json:"bogus"`   // positions at which a reply with an unknown seq is injected
	Failure string     `json:"failure"` // "", stall, close, halfclose, badmagic, truncated
	FailAt  int        `json:"failat"`  // number of replies sent before the failure
	Stalled string     `json:"stalled"` // kind of the stalled call (its deadline is shortened)
}

func kindType(k string) uint32 {
	switch k {
	case "read":
		return rpc.TypeRead
	case "write":
		return rpc.TypeWrite
	case "sync":
		return rpc.TypeSync
	case "unmap":
		return rpc.TypeUnmap
	}
	return rpc.TypePing
}

func readPayload(off int64, n int) []byte {
	b := make([]byte, n)
	for i := range b {
		b[i] = byte(uint64(off)/512*31 + uint64(i)*7 + 3)
	}
	return b
}

type callResult struct {
	n       int
	err     error
	buf     []byte
	dur     time.Duration
	started time.Time
}

const (
	c15Short = 400 * time.Millisecond
	c15Long  = 25 * time.Second
)

var rpcTimeoutMu sync.Mutex

func runPeerScript(sc peerScript) *Fail {
	rpcTimeoutMu.Lock()
	defer rpcTimeoutMu.Unlock()
	// deadlines: the stalled kind short, everything else long, so a pass can
	// never come from the per-call timer of the other requests
	rd, wr, sy, un, pi := c15Long, c15Long, c15Long, c15Long, c15Long
	switch sc.Stalled {
	case "read":
		rd = c15Short
	case "write":
		wr = c15Short
	case "sync":
		sy = c15Short
	case "unmap":
		un = c15Short
	case "ping":
		pi = c15Short
	}
	rpc.VerifSetTimeouts(rd, wr, sy, un, pi)

	// a loopback address of this process's own (many checks at once can exhaust the
	// ephemeral ports of 127.0.0.1), and patience when the machine is that busy
	var ln net.Listener
	var err error
	for t0 := time.Now(); ; time.Sleep(50 * time.Millisecond) {
		if ln, err = net.Listen("tcp", fmt.Sprintf("127.%d.%d.%d:0", 80+shardNo()%64, (os.Getpid()*37)%250+1, 1+int(c15Seq.Add(1))%250)); err == nil {
			break
		}
		if time.Since(t0) > 10*time.Second {
			panic(err)
		}
	}
	defer ln.Close()
	type accepted struct {
		c   net.Conn
		err error
	}
	acc := make(chan accepted, 1)
	go func() { c, err := ln.Accept(); acc <- accepted{c, err} }()
	cc, err := net.Dial("tcp", ln.Addr().String())
	if err != nil {
		panic(err)
	}
	a := <-acc
	if a.err != nil {
		panic(a.err)
	}
	peer := a.c
	defer peer.Close()
	closeChan := make(chan struct{}, 5)
	client := rpc.NewClient(cc, closeChan)

	first := []int{}
	late := []int{}
	for i, c := range sc.Calls {
		if c.Late {
			late = append(late, i)
		} else {
			first = append(first, i)
		}
	}
	results := make([]callResult, len(sc.Calls))
	issue := func(i int, wg *sync.WaitGroup) {
		defer wg.Done()
		c := sc.Calls[i]
		off := int64(c.Block) * 4096
		st := time.Now()
		var r callResult
		r.started = st
		switch c.Kind {
		case "read":
			r.buf = make([]byte, c.Len)
			r.n, r.err = client.ReadAt(r.buf, off)
		case "write":
			r.n, r.err = client.WriteAt(readPayload(off+1, c.Len), off)
		case "sync":
			r.n, r.err = client.Sync()
		case "unmap":
			r.n, r.err = client.Unmap(off, int64(c.Len))
		default:
			r.err = client.Ping()
		}
		r.dur = time.Since(st)
		results[i] = r
	}
	var wg sync.WaitGroup
	for _, i := range first {
		wg.Add(1)
		go issue(i, &wg)
	}

	// peer: collect all first-wave requests
	type req struct {
		f    refFrame
		call int
	}
	reqs := []req{}
	peer.SetReadDeadline(time.Now().Add(20 * time.Second))
	used := map[int]bool{}
	for len(reqs) < len(first) {
		f, err := refDecode(peer)
		if err != nil {
			return fail("client|request-not-sent", fmt.Sprintf("peer received %d of %d requests: %v", len(reqs), len(first), err), "C15")
		}
		if f.Magic != rpc.MagicVersion {
			return fail("client|bad-magic-sent", fmt.Sprintf("magic 0x%x", f.Magic), "C15")
		}
		// identify the call: kind + offset (+ length) are unique per script
		idx := -1
		for _, i := range first {
			c := sc.Calls[i]
			if used[i] || kindType(c.Kind) != f.Type {
				continue
			}
			switch c.Kind {
			case "read", "unmap":
				if f.Offset == int64(c.Block)*4096 && f.Size == int64(c.Len) {
					idx = i
				}
			case "write":
				if f.Offset == int64(c.Block)*4096 && bytes.Equal(f.Data, readPayload(f.Offset+1, c.Len)) && f.Size == int64(c.Len) {
					idx = i
				}
			default:
				idx = i
			}
			if idx >= 0 {
				break
			}
		}
		if idx < 0 {
			return fail("client|request-garbled", fmt.Sprintf("peer received a frame matching no issued call: type=%d off=%d size=%d len=%d", f.Type, f.Offset, f.Size, len(f.Data)), "C15")
		}
		used[idx] = true
		reqs = append(reqs, req{f, idx})
	}
	seqs := map[uint32]bool{}
	for _, r := range reqs {
		if seqs[r.f.Seq] {
			return fail("client|duplicate-seq", fmt.Sprintf("sequence number %d used twice", r.f.Seq), "C15")
		}
		seqs[r.f.Seq] = true
	}
	// reply order
	sort.SliceStable(reqs, func(i, j int) bool { return sc.Calls[reqs[i].call].Pos < sc.Calls[reqs[j].call].Pos })
	bogus := map[int]bool{}
	for _, b := range sc.Bogus {
		bogus[b] = true
	}
	pw := func(f refFrame) { peer.Write(refEncode(f)) }
	replyFor := func(r req) refFrame {
		c := sc.Calls[r.call]
		out := refFrame{Magic: rpc.MagicVersion, Seq: r.f.Seq}
		switch c.Reply {
		case "error":
			out.Type = rpc.TypeError
			out.Data = []byte(fmt.Sprintf("scripted error for call %d off %d", r.call, r.f.Offset))
			out.Size = int64(len(out.Data))
		case "eof":
			out.Type = rpc.TypeEOF
			if c.Kind == "read" {
				out.Data = readPayload(r.f.Offset, c.Len/2)
			}
			out.Size = int64(len(out.Data))
		default:
			out.Type = rpc.TypeResponse
			if c.Kind == "read" {
				out.Data = readPayload(r.f.Offset, c.Len)
				out.Size = int64(len(out.Data))
			} else if c.Kind == "write" {
				out.Size = int64(c.Len)
			}
		}
		return out
	}
	answered := map[int]bool{}
	sent := 0
	failed := false
	var failTime time.Time
	for _, r := range reqs {
		if sc.Failure != "" && sent >= sc.FailAt {
			break
		}
		if sc.Calls[r.call].Stall {
			continue
		}
		if bogus[sent] {
			var unk uint32 = 0x7fffff00
			for seqs[unk] {
				unk++
			}
			pw(refFrame{Magic: rpc.MagicVersion, Seq: unk, Type: rpc.TypeResponse, Data: []byte("bogus"), Size: 5})
		}
		f := replyFor(r)
		pw(f)
		if sc.Calls[r.call].Dup {
			f2 := f
			f2.Type = rpc.TypeError
			f2.Data = []byte("duplicate reply must be ignored")
			f2.Size = int64(len(f2.Data))
			pw(f2)
		}
		answered[r.call] = true
		sent++
	}
	if sc.Failure != "" {
		failed = true
		failTime = time.Now()
		switch sc.Failure {
		case "close":
			peer.Close()
		case "halfclose":
			peer.(*net.TCPConn).CloseWrite()
		case "badmagic":
			pw(refFrame{Magic: 0x1234, Seq: 1, Type: rpc.TypeResponse})
		case "truncated":
			b := refEncode(refFrame{Magic: rpc.MagicVersion, Seq: 1, Type: rpc.TypeResponse, Data: make([]byte, 100), Size: 100})
			peer.Write(b[:40])
			peer.Close()
		case "stall":
			// nothing: the stalled call runs into its deadline
		}
	}
	// wait for the client to notice
	if failed {
		select {
		case <-closeChan:
		case <-time.After(10 * time.Second):
			return fail("client|failure="+sc.Failure+"|not-reported", "no notification on the close channel within 10 s of the failure", "C15")
		}
		// later requests must fail promptly
		var lw sync.WaitGroup
		for _, i := range late {
			lw.Add(1)
			go issue(i, &lw)
		}
		done := make(chan struct{})
		go func() { lw.Wait(); close(done) }()
		select {
		case <-done:
		case <-time.After(5 * time.Second):
			return fail("client|failure="+sc.Failure+"|later-request-hangs", "a request issued after the failure was reported did not return within 5 s", "C15")
		}
		for _, i := range late {
			if results[i].err == nil {
				return fail("client|failure="+sc.Failure+"|later-request-succeeds", fmt.Sprintf("call %d issued after the failure returned success", i), "C15")
			}
			if results[i].dur > time.Second {
				return fail("client|failure="+sc.Failure+"|later-request-slow", fmt.Sprintf("call %d issued after the failure took %v", i, results[i].dur), "C15")
			}
		}
	}
	// all first-wave calls must complete
	done := make(chan struct{})
	go func() { wg.Wait(); close(done) }()
	select {
	case <-done:
	case <-time.After(12 * time.Second):
		return fail("client|failure="+sc.Failure+"|pending-request-hangs", "pending requests did not complete within 12 s (their own deadline is 25 s)", "C15")
	}
	if failed {
		_ = failTime
	}
	// check results
	for _, i := range first {
		c := sc.Calls[i]
		r := results[i]
		off := int64(c.Block) * 4096
		if !answered[i] {
			if r.err == nil {
				return fail("client|unanswered-request-succeeds", fmt.Sprintf("call %d (%s) was never answered but returned success", i, c.Kind), "C15")
			}
			if c.Stall && sc.Failure == "stall" {
				if r.err != rpc.ErrRWTimeout && r.err != rpc.ErrPingTimeout {
					return fail("client|stall|wrong-error", fmt.Sprintf("stalled call returned %v", r.err), "C15")
				}
				if r.dur < c15Short-50*time.Millisecond || r.dur > c15Short+3*time.Second {
					return fail("client|stall|deadline", fmt.Sprintf("stalled call returned after %v, deadline %v", r.dur, c15Short), "C15")
				}
			} else if r.dur > 9*time.Second {
				return fail("client|failure="+sc.Failure+"|pending-request-slow", fmt.Sprintf("pending call %d failed only after %v", i, r.dur), "C15")
			}
			continue
		}
		switch c.Reply {
		case "error":
			want := fmt.Sprintf("scripted error for call %d off %d", i, map[bool]int64{true: off, false: 0}[c.Kind == "read" || c.Kind == "write" || c.Kind == "unmap"])
			if r.err == nil || r.err.Error() != want {
				return fail("client|reply-mismatch|error", fmt.Sprintf("call %d (%s off %d): got err %v, want %q", i, c.Kind, off, r.err, want), "C15")
			}
		case "eof":
			if r.err != io.EOF {
				return fail("client|reply-mismatch|eof", fmt.Sprintf("call %d (%s): got err %v, want EOF", i, c.Kind, r.err), "C15")
			}
			if c.Kind == "read" {
				want := readPayload(off, c.Len/2)
				if r.n != len(want) || !bytes.Equal(r.buf[:len(want)], want) {
					return fail("client|reply-mismatch|eof-data", fmt.Sprintf("call %d read off %d: n=%d want %d or data differs", i, off, r.n, len(want)), "C15")
				}
			}
		default:
			if r.err != nil {
				return fail("client|reply-mismatch|response", fmt.Sprintf("call %d (%s off %d): got err %v, want success", i, c.Kind, off, r.err), "C15")
			}
			switch c.Kind {
			case "read":
				if r.n != c.Len || !bytes.Equal(r.buf, readPayload(off, c.Len)) {
					return fail("client|reply-mismatch|read-data", fmt.Sprintf("call %d read off %d len %d: n=%d, data belongs to another request or is corrupted", i, off, c.Len, r.n), "C15")
				}
			case "write":
				if r.n != c.Len {
					return fail("client|reply-mismatch|write-count", fmt.Sprintf("call %d write off %d len %d: n=%d", i, off, c.Len, r.n), "C15")
				}
			}
		}
	}
	if !failed {
		select {
		case <-closeChan:
			return fail("client|spurious-failure", "close channel notified although the connection is healthy", "C15")
		default:
		}
		// shut the client down from the peer side; do not wait for its 2 s poison sleep
		peer.Close()
	}
	return nil
}

var c15Seq atomic.Int64

func genPeerScript(t *rapid.T, withFailure bool) peerScript {
	n := rapid.IntRange(1, 64).Draw(t, "ncalls")
	if rapid.IntRange(0, 3).Draw(t, "small") == 0 {
		n = rapid.IntRange(1, 6).Draw(t, "ncalls2")
	}
	var sc peerScript
	blocks := rapid.Permutation(seqInts(200)).Draw(t, "blocks")
	pings := 0
	syncs := 0
	for i := 0; i < n; i++ {
		k := rapid.SampledFrom([]string{"read", "read", "read", "write", "write", "sync", "unmap", "ping"}).Draw(t, "kind")
		// sync and ping carry no distinguishing fields: at most one in flight each
		if k == "ping" {
			if pings > 0 {
				k = "read"
			} else {
				pings++
			}
		}
		if k == "sync" {
			if syncs > 0 {
				k = "write"
			} else {
				syncs++
			}
		}
		c := callSpec{Kind: k, Block: blocks[i], Pos: rapid.IntRange(0, 1000).Draw(t, "pos")}
		if k == "read" || k == "write" || k == "unmap" {
			c.Len = rapid.SampledFrom([]int{512, 1024, 4096, 4608, 8192, 16384, 65536}).Draw(t, "len")
		}
		c.Reply = rapid.SampledFrom([]string{"response", "response", "response", "error", "eof"}).Draw(t, "reply")
		c.Dup = rapid.IntRange(0, 9).Draw(t, "dup") == 0
		sc.Calls = append(sc.Calls, c)
	}
	nb := rapid.IntRange(0, 3).Draw(t, "nbogus")
	for i := 0; i < nb; i++ {
		sc.Bogus = append(sc.Bogus, rapid.IntRange(0, n).Draw(t, "bogus"))
	}
	if withFailure {
		sc.Failure = rapid.SampledFrom([]string{"stall", "close", "halfclose", "badmagic", "truncated"}).Draw(t, "failure")
		sc.FailAt = rapid.IntRange(0, n).Draw(t, "failat")
		if sc.Failure == "stall" {
			// exactly one call is never answered; everything else is answered
			si := rapid.IntRange(0, n-1).Draw(t, "stalled")
			sc.Calls[si].Stall = true
			sc.Calls[si].Dup = false
			sc.Stalled = sc.Calls[si].Kind
			sc.FailAt = n
			// in half of the scripts the peer falls silent altogether after some
			// replies: the stalled call runs into its (short) deadline while other
			// requests, whose own deadlines are far away, are still pending - they
			// must be failed promptly as well
			if n > 1 && rapid.Bool().Draw(t, "silent") {
				sc.FailAt = rapid.IntRange(0, n-1).Draw(t, "silentafter")
			}
			// calls of the stalled kind share its short deadline: keep only the stalled one of that kind
			for i := range sc.Calls {
				if i != si && sc.Calls[i].Kind == sc.Stalled {
					if sc.Stalled == "read" {
						sc.Calls[i].Kind = "write"
					} else {
						sc.Calls[i].Kind = "read"
					}
					if sc.Calls[i].Len == 0 {
						sc.Calls[i].Len = 4096
					}
				}
			}
		}
		nl := rapid.IntRange(1, 4).Draw(t, "nlate")
		for i := 0; i < nl; i++ {
			k := rapid.SampledFrom([]string{"read", "write", "sync", "ping", "unmap"}).Draw(t, "latekind")
			sc.Calls = append(sc.Calls, callSpec{Kind: k, Block: blocks[n+i], Len: 4096, Late: true})
		}
	}
	return sc
}

func seqInts(n int) []int {
	out := make([]int, n)
	for i := range out {
		out[i] = i
	}
	return out
}

func c15RunScripts(t *testing.T, test string, withFailure bool) {
	rec := NewRecorder("C15", test)
	defer rec.Flush(t)
	run := func(sc peerScript, fatalf func(string, ...interface{})) {
		concurrent := 0
		for _, c := range sc.Calls {
			if !c.Late {
				concurrent++
			}
		}
		nt := concurrent >= 2
		labels := []string{}
		if sc.Failure != "" {
			labels = append(labels, "failure:"+sc.Failure)
			if sc.Failure == "stall" && sc.FailAt < concurrent {
				labels = append(labels, "stall:other-requests-pending")
			}
		}
		if len(sc.Bogus) > 0 {
			labels = append(labels, "unknown-seq-injected")
		}
		rec.Case(sc, nt, labels...)
		if f := runPeerScript(sc); f != nil {
			if rec.Fail("C15", "C15|"+f.Sig, f.Detail, sc) {
				return
			}
			fatalf("VIOLATION C15 %s: %s", f.Sig, f.Detail)
		}
	}
	var rp peerScript
	if isReplay, err := LoadReplay(&rp); isReplay {
		if err != nil || len(rp.Calls) == 0 || (rp.Failure != "") != withFailure {
			t.Skip("replay file is for another C15 test")
		}
		run(rp, t.Fatalf)
		return
	}
	checkBudget(t, func(rt *rapid.T) {
		run(genPeerScript(rt, withFailure), rt.Fatalf)
	})
}

// TestC15Matching — every reply is delivered to the request that caused it.
func TestC15Matching(t *testing.T) { c15RunScripts(t, "TestC15Matching", false) }

// TestC15Failure — when the connection fails or a request exceeds its
// deadline, pending and later requests fail promptly and the failure is reported.
func TestC15Failure(t *testing.T) { c15RunScripts(t, "TestC15Failure", true) }

var _ = strings.Join
