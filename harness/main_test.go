package harness

import (
	"io"
	"os"
	"testing"

	"github.com/sirupsen/logrus"
)

func TestMain(m *testing.M) {
	if mode := os.Getenv("VERIF_CHILD"); mode != "" {
		os.Exit(childMain(mode))
	}
	if os.Getenv("VERIF_LOG") == "" {
		logrus.SetOutput(io.Discard)
		logrus.SetLevel(logrus.FatalLevel)
	}
	installFatalCapture()
	if os.Getenv("REPLICATION_FACTOR") == "" {
		os.Setenv("REPLICATION_FACTOR", "3")
	}
	code := m.Run()
	if os.Getenv("VERIF_OUT") == "" {
		os.RemoveAll(scratchRoot())
	}
	os.Exit(code)
}
