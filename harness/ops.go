package harness

import (
	"fmt"
)

// Op is one abstract operation of an op program. Selectors (Sel) are resolved
// against the model at execution time (modulo the number of candidates).
type Op struct {
	K    string `json:"k"`
	Off  int64  `json:"off,omitempty"` // sectors (512 B)
	Len  int64  `json:"len,omitempty"` // sectors
	Seed int    `json:"seed,omitempty"`
	Name string `json:"name,omitempty"`
	User bool   `json:"user,omitempty"`
	Sel  int    `json:"sel,omitempty"`
	On   bool   `json:"on,omitempty"`
	N    int64  `json:"n,omitempty"`
	Str  string `json:"str,omitempty"`
}

func (o Op) String() string {
	switch o.K {
	case "write":
		return fmt.Sprintf("write(off=%d sec,len=%d sec,seed=%d)", o.Off, o.Len, o.Seed)
	case "read":
		return fmt.Sprintf("read(off=%d,len=%d)", o.Off, o.Len)
	case "snap":
		return fmt.Sprintf("snap(%s,user=%v)", o.Name, o.User)
	case "unmap":
		return fmt.Sprintf("unmap(off=%d,len=%d)", o.Off, o.Len)
	case "resize":
		return fmt.Sprintf("resize(n=%d,str=%q)", o.N, o.Str)
	}
	return fmt.Sprintf("%s(sel=%d,on=%v,n=%d,str=%q,name=%q)", o.K, o.Sel, o.On, o.N, o.Str, o.Name)
}

// Program is a complete engine-level case.
type Program struct {
	Blocks      int  `json:"blocks"`   // volume size in 4 KiB blocks
	MaxChain    int  `json:"maxchain"` // types.MaxChainLength for the case
	RealDrainer bool `json:"realdrainer,omitempty"`
	Ops         []Op `json:"ops"`
}

// payload returns the deterministic payload of a write: a pure function of
// (op index, seed, absolute sector, position in sector). seed 0 = zeros.
func payload(opIdx int, seed int, off, length int64) []byte {
	b := make([]byte, length)
	if seed == 0 {
		return b
	}
	for i := range b {
		p := off + int64(i)
		sec := uint32(p / Sec)
		x := uint32(opIdx+1)*2654435761 + sec*40503 + uint32(seed)*97 + uint32(p%Sec)*3
		v := byte(x>>8) | 1
		b[i] = v
	}
	return b
}
